"""C03 — failing actions are contained and rails fail closed.

Native (bounded) side only.  Three scenario families, all evaluated on the real code:

  D  `ActionDispatcher.execute_action` called directly: for every kind of registered callable (async / sync function, bound
     method, object with `run`, lazily instantiated class, LangChain Runnable / Chain) and every kind of exception the
     callable raises at call index i (and pairs i<j) of a short call sequence, the call returns `(result, "success")` when
     the callable returned and `(None, "failed")` when it raised; only `LLMCallException` escapes.

  G  `LLMRails.generate` for both Colang versions on configurations with an input rail, an output rail and a dialog
     action, all implemented by custom actions of the test (registered in several styles; config A: `$ok = <check>` /
     `if not $ok` -> refuse; config B: the rails additionally call an audit action before refusing and, in 1.0, the check
     returns a "blocked" flag).  The actions record every call (turn, site, text, verdict) in a ledger; at global call
     index i (and pairs i<j) the called action - or the constructor of a class-registered action - raises.
     Conversations have 2-3 turns of three kinds (benign / input the rail rejects / LLM text the rail rejects).  Judged from
     the ledger, per turn:
       contain   generate returns normally (an assistant message with text content) within the time limit;
       closed    content is released only if the action guarding it approved it: if the reply contains this turn's LLM text
                 then the input rail action returned True for this turn's user message and the output rail action returned True
                 for that text; if a rail action raised in this turn, the reply consists only of the refusal texts and/or the
                 fixed internal-error message;
       active    in every turn after a faulted turn the rails still run: the input rail action is invoked with the user
                 message, LLM text is only returned after the output rail action was invoked on it and approved it;
       live      a fault-free benign turn after a faulted turn is answered with the (approved) LLM text.

  L  rails *shipped in the library* (Colang 2.x and 1.0 flavours of a few of them) with their action replaced by a raising
     one: the reply must not be the unchecked LLM text.
"""
from pyvc.api import *

DISP = "nemoguardrails/actions/action_dispatcher.py"
RT1 = "nemoguardrails/colang/v1_0/runtime/runtime.py"
RT2 = "nemoguardrails/colang/v2_x/runtime/runtime.py"

ERR = "I'm sorry, an internal error has occurred."
REF_IN = "REFUSED-INPUT I cannot respond to that."
REF_OUT = "REFUSED-OUTPUT I cannot say that."
BLOCK_IN = "BLOCKIN"
BLOCK_OUT = "BLOCKOUT"

CLAUSE = dict(
    disp_ok="[dispatcher/success] execute_action returns (value returned by the action, 'success') when the action callable returns",
    disp_fail="[dispatcher/contain] execute_action returns (None, 'failed') when the action callable raises an Exception; only "
              "LLMCallException may escape",
    disp_llm="[dispatcher/llm] an LLMCallException raised by the action callable escapes execute_action unchanged",
    disp_ctor="[dispatcher/ctor] execute_action returns (None, 'failed') when the constructor of a class-registered action raises",
    baseline="[baseline] without any fault the conversation is answered as scripted (benign turn: the LLM text; rejected input / "
             "rejected output: the rail's refusal) and every rail action is invoked",
    contain="[contain] generate returns normally (an assistant message with text content, within the time limit) although a "
            "custom action raised",
    closed="[closed] content guarded by a failing action is treated as not approved: the reply contains the turn's LLM text only "
           "if the input rail action returned True for the user message and the output rail action returned True for that text; "
           "when a rail action raised, the reply consists only of refusal texts and/or the fixed internal-error message",
    active="[active] in the turns after a faulted turn all rails are active: the input rail action is invoked with the turn's "
           "user message, and LLM text is returned only after the output rail action was invoked on it and approved it",
    live="[live] a fault-free benign turn after a faulted turn is processed normally: it is answered with the approved LLM text",
    lib="[library/closed] a rail shipped in the library whose action raises does not let the unchecked LLM text through",
)

# ---------------------------------------------------------------------------------------------
# exception kinds
# ---------------------------------------------------------------------------------------------
# (name, has empty args)
KINDS = [
    ("RuntimeError('msg')", False),
    ("bare-assert", True),
    ("asyncio.TimeoutError()", True),
    ("KeyError()", True),
    ("custom-exception(code, detail)", False),
    ("custom-exception-no-args", True),
    ("KeyError-from-lookup", False),
    ("bare-raise-ValueError", True),
    ("custom-exception-args-emptied", True),
    ("OSError(errno, text)", False),
    ("custom-exception-with-format-chars-in-str", False),
    ("bare-raise-NotImplementedError", True),
    ("UnicodeDecodeError", False),
    ("ZeroDivisionError", False),
    ("MemoryError()", True),
    ("ExceptionGroup", False),
    ("StopIteration()", True),
    ("custom-exception-whose-str-raises", False),
]
KIND_NAMES = [k for k, _ in KINDS]


class C03BackendDown(Exception):
    """custom exception class raised without arguments"""


class C03ModerationError(Exception):
    def __init__(self, code, detail):
        super().__init__(code, detail)
        self.code = code
        self.detail = detail


class C03QuotaError(Exception):
    def __init__(self, detail):
        super().__init__(detail)
        self.detail = detail
        self.args = ()


class C03FormatError(Exception):
    def __str__(self):
        return "100% {broken} %s %d {0} \n second line"


class C03UnprintableError(Exception):
    def __str__(self):
        raise TypeError("this exception cannot be rendered")

    __repr__ = __str__


def _raise(kind):
    """raise the exception of the given kind the way real action code would"""
    import asyncio
    if kind == "custom-exception-whose-str-raises":
        raise C03UnprintableError("x")
    if kind == "RuntimeError('msg')":
        raise RuntimeError("injected fault in the action")
    if kind == "bare-assert":
        verdict = None
        assert verdict is not None
    if kind == "asyncio.TimeoutError()":
        raise asyncio.TimeoutError()
    if kind == "KeyError()":
        raise KeyError()
    if kind == "custom-exception(code, detail)":
        raise C03ModerationError(503, "moderation backend unavailable")
    if kind == "custom-exception-no-args":
        raise C03BackendDown
    if kind == "KeyError-from-lookup":
        return {}["missing"]
    if kind == "bare-raise-ValueError":
        raise ValueError
    if kind == "custom-exception-args-emptied":
        raise C03QuotaError("quota exceeded")
    if kind == "OSError(errno, text)":
        raise OSError(5, "Input/output error")
    if kind == "custom-exception-with-format-chars-in-str":
        raise C03FormatError("x")
    if kind == "bare-raise-NotImplementedError":
        raise NotImplementedError
    if kind == "UnicodeDecodeError":
        return b"\xff\xfe".decode("utf-8")
    if kind == "ZeroDivisionError":
        return 1 // 0
    if kind == "MemoryError()":
        raise MemoryError()
    if kind == "ExceptionGroup":
        raise ExceptionGroup("several backends failed", [ValueError(), KeyError("k")])
    if kind == "StopIteration()":
        raise StopIteration()
    if kind == "LLMCallException":
        from nemoguardrails.actions.llm.utils import LLMCallException
        raise LLMCallException(RuntimeError("provider down"))
    raise AssertionError("unknown fault kind %r" % (kind,))


async def _araise(kind):
    """async flavour: the timeout is a real asyncio.wait_for timeout"""
    import asyncio
    if kind == "asyncio.TimeoutError()":
        await asyncio.wait_for(asyncio.sleep(5), timeout=0.001)
    _raise(kind)


# ---------------------------------------------------------------------------------------------
# small helpers
# ---------------------------------------------------------------------------------------------
class _Collector:
    """at most `cap` failures, preferring distinct signatures"""

    def __init__(self, function, file, cap=5):
        self.function, self.file, self.cap = function, file, cap
        self.items = []
        self.sigs = {}
        self.count = 0

    def add(self, clause_key, inputs, outcome, sig=None, kind="post"):
        self.count += 1
        sig = (clause_key, sig)
        n = self.sigs.get(sig, 0)
        self.sigs[sig] = n + 1
        rec = dict(kind=kind, function=self.function, file=self.file, property_id="C03", clause=CLAUSE[clause_key],
                   inputs=inputs[:1500], outcome=outcome[:700])
        if len(self.items) < self.cap:
            if n < 2:
                self.items.append((sig, rec))
        elif n == 0:
            # replace an item whose signature is over-represented
            for i in range(len(self.items) - 1, -1, -1):
                s = self.items[i][0]
                if sum(1 for x, _ in self.items if x == s) > 1:
                    self.items[i] = (sig, rec)
                    break

    def failing(self):
        return [r for _, r in self.items]


def _run_guarded(loop, coro_factory, seconds):
    """run the coroutine with an asyncio timeout and, where possible, a SIGALRM watchdog for non-yielding hangs.
    Returns (value, None) or (None, exception)"""
    import asyncio
    import signal
    import threading

    class _Hang(BaseException):
        pass

    use_alarm = hasattr(signal, "setitimer") and threading.current_thread() is threading.main_thread()
    old = None
    if use_alarm:
        def on_alarm(signum, frame):
            raise _Hang()
        try:
            old = signal.signal(signal.SIGALRM, on_alarm)
            signal.setitimer(signal.ITIMER_REAL, seconds + 5.0)
        except Exception:
            use_alarm = False
    try:
        try:
            return loop.run_until_complete(asyncio.wait_for(coro_factory(), timeout=seconds)), None
        except _Hang:
            return None, TimeoutError("no return within %.0f s (watchdog)" % (seconds + 5.0))
        except asyncio.TimeoutError as ex:
            return None, ex
        except Exception as ex:
            return None, ex
    finally:
        if use_alarm:
            try:
                signal.setitimer(signal.ITIMER_REAL, 0)
                signal.signal(signal.SIGALRM, old)
            except Exception:
                pass


def _exc_text(ex):
    try:
        s = str(ex)
    except Exception:
        s = "<str() failed>"
    return "%s: %s" % (type(ex).__name__, s[:160])


# ---------------------------------------------------------------------------------------------
# family D: the dispatcher
# ---------------------------------------------------------------------------------------------
DISPATCH_STYLES = ["async-function", "sync-function", "bound-method", "object-with-run", "lazily-instantiated-class",
                   "sync-function-returning-coroutine", "langchain-runnable", "langchain-chain"]


def _dispatcher_checks(rng, tier):
    import asyncio
    import itertools
    import warnings
    from nemoguardrails.actions.action_dispatcher import ActionDispatcher
    from nemoguardrails.actions.llm.utils import LLMCallException
    import langchain.chains.base  # noqa: F401  (installs its own warning filters on import)
    warnings.simplefilter("ignore")     # (the caller wraps this generator in warnings.catch_warnings())

    thorough = tier == "thorough"
    col = _Collector("ActionDispatcher.execute_action", DISP, cap=5)
    col_ctor = _Collector("ActionDispatcher.execute_action (class-registered action whose constructor raises)", DISP, cap=3)
    loop = asyncio.new_event_loop()
    n = n_ctor = 0
    seen = set()
    seen_ctor = set()

    def build(style, plan):
        """returns (object to register, params); plan: {call index: kind}; the callable returns ('ok', call index, x)"""
        st = dict(calls=0)

        def step(x):
            st["calls"] += 1
            k = plan.get(st["calls"])
            if k is not None:
                _raise(k)
            return ("ok", st["calls"], x)

        async def astep(x):
            st["calls"] += 1
            k = plan.get(st["calls"])
            if k is not None:
                await _araise(k)
            return ("ok", st["calls"], x)

        if style == "async-function":
            async def act(x=None):
                return await astep(x)
            return act
        if style == "sync-function":
            def act(x=None):
                return step(x)
            return act
        if style == "sync-function-returning-coroutine":
            def act(x=None):
                return astep(x)
            return act
        if style == "bound-method":
            class Holder:
                async def act(self, x=None):
                    return await astep(x)
            return Holder().act
        if style == "object-with-run":
            class Obj:
                def run(self, x=None):
                    return step(x)
            return Obj()
        if style == "lazily-instantiated-class":
            class Lazy:
                def run(self, x=None):
                    return step(x)
            return Lazy
        if style == "langchain-runnable":
            from langchain_core.runnables import RunnableLambda

            async def afn(d):
                return await astep(d.get("x"))

            def fn(d):
                return step(d.get("x"))
            return RunnableLambda(fn, afunc=afn)
        if style == "langchain-chain":
            from langchain.chains.base import Chain

            class FaultChain(Chain):
                @property
                def input_keys(self):
                    return ["x"]

                @property
                def output_keys(self):
                    return ["out"]

                def _call(self, inputs, run_manager=None):
                    return {"out": step(inputs.get("x"))}

                async def _acall(self, inputs, run_manager=None):
                    return {"out": await astep(inputs.get("x"))}
            return FaultChain()
        raise AssertionError(style)

    def run_plan(style, plan, name):
        """3 consecutive calls of the same registered action; returns list of problems (clause key, text, sig)"""
        d = ActionDispatcher(load_all_actions=False)
        d.register_action(build(style, plan), name)
        bad = []
        for i in (1, 2, 3):
            kind = plan.get(i)
            val, ex = _run_guarded(loop, lambda: d.execute_action(name, {"x": i}), 10)
            if kind == "LLMCallException":
                if not isinstance(ex, LLMCallException):
                    bad.append(("disp_llm", "call %d: %s" % (i, "returned %r" % (val,) if ex is None else "raised " + _exc_text(ex)), "llm"))
                continue
            if ex is not None:
                bad.append(("disp_fail" if kind else "disp_ok", "call %d (action %s): execute_action raised %s" % (
                    i, "raises " + kind if kind else "returns", _exc_text(ex)), "raised-" + type(ex).__name__))
                continue
            if kind is None:
                want = ("ok", i, i)
                shape_ok = isinstance(val, tuple) and len(val) == 2 and val[1] == "success"
                if not (shape_ok and isinstance(val[0], (tuple, list)) and tuple(val[0]) == want):
                    bad.append(("disp_ok", "call %d (action returns %r): execute_action returned %r" % (i, want, val), "wrong-success"))
            else:
                if not (isinstance(val, tuple) and len(val) == 2 and val[0] is None and val[1] == "failed"):
                    bad.append(("disp_fail", "call %d (action raises %s): execute_action returned %r" % (i, kind, val), "wrong-failed"))
        return bad

    try:
        kinds = KIND_NAMES + ["LLMCallException"]
        plans = []
        for k in kinds:
            for i in (1, 2, 3):
                plans.append({i: k})
        pair_idx = [(1, 2), (1, 3), (2, 3)]
        for ka, kb in (itertools.product(kinds, repeat=2) if thorough else [(rng.choice(kinds), rng.choice(kinds)) for _ in range(12)]):
            for i, j in (pair_idx if thorough else [rng.choice(pair_idx)]):
                plans.append({i: ka, j: kb})
        plans.append({1: "bare-assert", 2: "KeyError()", 3: "asyncio.TimeoutError()"})
        plans.append({})
        for style in DISPATCH_STYLES:
            for pi, plan in enumerate(plans):
                if not thorough and len(plan) == 1 and style not in ("async-function", "sync-function") and (pi + len(style)) % 2:
                    continue
                if "StopIteration()" in plan.values() and style not in ("sync-function", "object-with-run", "lazily-instantiated-class"):
                    continue    # a StopIteration leaving a coroutine is turned into RuntimeError by Python itself
                if "bare-raise-NotImplementedError" in plan.values() and style == "langchain-chain":
                    continue    # by design: NotImplementedError from a chain's async path makes the dispatcher fall back to chain.run
                name = "CheckThingAction" if pi % 3 == 0 else "check_thing"
                n += 1
                seen.add((style, tuple(sorted(plan.items())), name))
                for key, text, sig in run_plan(style, plan, name):
                    col.add(key, "action registered as %s under %r; the callable raises at call index -> kind %r; 3 consecutive "
                                 "execute_action calls with params {'x': i}" % (style, name, plan), text, sig=(style, sig))
        # unknown action
        d = ActionDispatcher(load_all_actions=False)
        for name in ("no_such_action", "NoSuchAction", ""):
            n += 1
            seen.add(("unknown", name))
            val, ex = _run_guarded(loop, lambda: d.execute_action(name, {}), 10)
            if ex is not None or val != (None, "failed"):
                col.add("disp_fail", "execute_action(%r, {}) on a dispatcher without that action" % name,
                        "returned %r" % (val,) if ex is None else "raised " + _exc_text(ex), sig="unknown")

        # class-registered action whose constructor raises (then, at a later call, succeeds)
        for k in (kinds[:-1] if thorough else ["RuntimeError('msg')", "bare-assert", "custom-exception-no-args", "KeyError()"]):
            for fail_calls in ((1,), (1, 2)):
                st = dict(ctor=0)

                class FlakyCtor:
                    def __init__(self, _st=st, _k=k, _f=fail_calls):
                        _st["ctor"] += 1
                        if _st["ctor"] in _f:
                            _raise(_k)

                    def run(self, x=None):
                        return ("ok", x)

                d = ActionDispatcher(load_all_actions=False)
                d.register_action(FlakyCtor, "flaky_ctor")
                for i in (1, 2, 3):
                    n_ctor += 1
                    seen_ctor.add((k, fail_calls, i))
                    val, ex = _run_guarded(loop, lambda: d.execute_action("flaky_ctor", {"x": i}), 10)
                    want = (None, "failed") if i in fail_calls else (("ok", i), "success")
                    if ex is not None or val != want:
                        col_ctor.add("disp_ctor" if i in fail_calls else "disp_ok",
                                     "class-registered action (instantiated lazily by execute_action) whose constructor raises %s at "
                                     "construction attempt(s) %s; execute_action call %d with params {'x': %d}" % (k, list(fail_calls), i, i),
                                     ("execute_action raised " + _exc_text(ex)) if ex is not None else "returned %r, expected %r" % (val, want),
                                     sig=(type(ex).__name__ if ex is not None else "value"))
    finally:
        loop.close()
    yield dict(function=col.function, evaluations=n, distinct=len(seen), failures=len(col.failing()), failing=col.failing(),
               total_failed_scenarios=col.count,
               bound="%d callable styles (%s) x fault plans over 3 consecutive calls: every single fault position x %d exception kinds "
                     "(%d of them with empty args; custom classes; ExceptionGroup; LLMCallException must escape)%s + %s pairs + a triple + "
                     "no fault; unknown action names; quick tier thins single faults for the less common styles" % (
                         len(DISPATCH_STYLES), ", ".join(DISPATCH_STYLES), len(kinds), sum(1 for _, e in KINDS if e),
                         "", "all kind x kind x position" if thorough else "12 random"))
    yield dict(function=col_ctor.function, evaluations=n_ctor, distinct=len(seen_ctor), failures=len(col_ctor.failing()),
               failing=col_ctor.failing(), total_failed_scenarios=col_ctor.count,
               bound="class registered as action, constructor raising at the first / first two construction attempts, %s exception kinds, "
                     "3 consecutive calls" % ("all" if thorough else "4"))


# ---------------------------------------------------------------------------------------------
# family G: LLMRails.generate with fault injection
# ---------------------------------------------------------------------------------------------
V1_CO = """
define user express greeting
  "hello"
  "hi there"

define flow greeting
  user express greeting
  $info = execute fetch_info(topic="greeting")
  bot express greeting

define flow check input
  $allowed = execute check_input(text=$user_message)
  if not $allowed
    bot refuse to respond
    stop

define flow check output
  $allowed = execute check_output(text=$bot_message)
  if not $allowed
    bot refuse to answer
    stop

define bot refuse to respond
  "%s"

define bot refuse to answer
  "%s"
""" % (REF_IN, REF_OUT)

V1_YAML = """
models:
  - type: main
    engine: openai
    model: gpt-3.5-turbo-instruct
  - type: embeddings
    engine: c03_fake_embed
    model: fake
rails:
  input:
    flows:
      - check input
  output:
    flows:
      - check output
"""

V2_CO = """
import core
import guardrails

flow main
  activate greeting

flow greeting
  user said something
  $info = await FetchInfoAction(topic="greeting")
  $text = await LlmTextAction()
  bot say $text

flow input rails $input_text
  $input_ok = await CheckInputAction(text=$input_text)
  if not $input_ok
    bot say "%s"
    abort

flow output rails $output_text
  $allowed = await CheckOutputAction(text=$output_text)
  if not $allowed
    bot say "%s"
    abort
""" % (REF_IN, REF_OUT)

# variant B: the rail calls a second custom action (audit log) when it rejects; in Colang 1.0 the checking action returns a
# "blocked" flag (`$blocked = execute ...` / `if $blocked`), which fails closed in 1.0 because a failed action ends the turn
V1B_CO = """
define user express greeting
  "hello"
  "hi there"

define flow greeting
  user express greeting
  $info = execute fetch_info(topic="greeting")
  bot express greeting

define flow check input
  $blocked = execute check_input(text=$user_message)
  if $blocked
    execute audit_log(stage="input", text=$user_message)
    bot refuse to respond
    stop

define flow check output
  $flagged = execute check_output(text=$bot_message)
  if $flagged
    execute audit_log(stage="output", text=$bot_message)
    bot refuse to answer
    stop

define bot refuse to respond
  "%s"

define bot refuse to answer
  "%s"
""" % (REF_IN, REF_OUT)

V2B_CO = """
import core
import guardrails

flow main
  activate greeting

flow greeting
  user said something
  $info = await FetchInfoAction(topic="greeting")
  $text = await LlmTextAction()
  bot say $text

flow input rails $input_text
  $input_ok = await CheckInputAction(text=$input_text)
  if not $input_ok
    await AuditLogAction(stage="input", text=$input_text)
    bot say "%s"
    abort

flow output rails $output_text
  $allowed = await CheckOutputAction(text=$output_text)
  if not $allowed
    await AuditLogAction(stage="output", text=$output_text)
    bot say "%s"
    abort
""" % (REF_IN, REF_OUT)

V2_YAML = """
colang_version: "2.x"
models:
  - type: main
    engine: openai
    model: gpt-3.5-turbo-instruct
  - type: embeddings
    engine: c03_fake_embed
    model: fake
"""

STYLES = ["async-function", "sync-function", "bound-method", "class-with-run", "decorated-with-special-params"]
CTOR_STYLE = "class-whose-constructor-raises"
SITE_NAME = dict(input="input rail action check_input", output="output rail action check_output", dialog="dialog action fetch_info",
                 audit="rail audit action audit_log")


def _register_fake_embeddings():
    from nemoguardrails.embeddings.providers import register_embedding_provider
    from nemoguardrails.embeddings.providers.base import EmbeddingModel

    class C03FakeEmbed(EmbeddingModel):
        engine_name = "c03_fake_embed"

        def __init__(self, embedding_model=None, **kwargs):
            self.model = embedding_model
            self.embedding_size = 8

        def encode(self, documents):
            out = []
            for d in documents:
                v = [0.0] * 8
                for i, ch in enumerate(d):
                    v[(ord(ch) + i) % 8] += 1.0
                out.append(v)
            return out

        async def encode_async(self, documents):
            return self.encode(documents)

    try:
        register_embedding_provider(C03FakeEmbed)
    except Exception:
        pass


class _Scenario:
    """ledger + fault plan shared by the test's actions"""

    def __init__(self, turns, faults, blocked_flag=False):
        self.turns = turns          # list of dict(kind, user, llm, marker)
        self.faults = dict(faults)  # global call index -> exception kind
        self.blocked_flag = blocked_flag    # the checking actions return "blocked" (True = reject) instead of "allowed"
        self.calls = 0
        self.turn = 0
        self.log = []               # (turn, site, text, outcome, call index); outcome True / False / 'value' / 'raised' / 'raised-in-ctor'
        self.llm_calls = []

    def pending(self):
        return self.faults.get(self.calls + 1)

    def enter(self, site, text):
        """returns the fault kind scheduled for this call (already logged as raised) or None"""
        self.calls += 1
        kind = self.faults.get(self.calls)
        if kind is not None:
            self.log.append((self.turn, site, text, "raised", self.calls))
        return kind

    def verdict(self, site, text):
        if site == "input":
            r = BLOCK_IN not in (text or "")
        elif site == "output":
            r = BLOCK_OUT not in (text or "")
        else:
            r = "info-ok"
        self.log.append((self.turn, site, text, r if site in ("input", "output") else "value", self.calls))
        if self.blocked_flag and site in ("input", "output"):
            return not r
        return r

    def hit(self, site, text):
        kind = self.enter(site, text)
        if kind is not None:
            _raise(kind)
        return self.verdict(site, text)

    async def ahit(self, site, text):
        kind = self.enter(site, text)
        if kind is not None:
            await _araise(kind)
        return self.verdict(site, text)

    def ctor(self, site):
        """constructor of a class-registered action: the scheduled fault fires here"""
        kind = self.pending()
        if kind is not None:
            self.calls += 1
            self.log.append((self.turn, site, None, "raised-in-ctor", self.calls))
            _raise(kind)


def _register_actions(app, version, style, sc):
    """(re)register the guarded actions (and the LLM stand-in for 2.x) bound to the scenario `sc`"""
    from nemoguardrails.actions import action
    names = dict(input="check_input", output="check_output", dialog="fetch_info", audit="audit_log")
    for site in ("input", "output", "dialog", "audit"):
        name = names[site]
        if style == "async-function":
            async def fn(text=None, topic=None, stage=None, _s=site):
                return await sc.ahit(_s, text if topic is None else topic)
            app.register_action(fn, name)
        elif style == "sync-function":
            def fn(text=None, topic=None, stage=None, _s=site):
                return sc.hit(_s, text if topic is None else topic)
            app.register_action(fn, name)
        elif style == "bound-method":
            class Holder:
                def __init__(self, s):
                    self.s = s

                async def call(self, text=None, topic=None, stage=None):
                    return await sc.ahit(self.s, text if topic is None else topic)
            app.register_action(Holder(site).call, name)
        elif style in ("class-with-run", CTOR_STYLE):
            class Act:
                _site = site
                _ctor = style == CTOR_STYLE

                def __init__(self):
                    if self._ctor:
                        sc.ctor(self._site)

                def run(self, text=None, topic=None, **kw):
                    return sc.hit(self._site, text if topic is None else topic)
            Act.__name__ = "C03" + name.title().replace("_", "")
            app.register_action(Act, name)
        elif style == "decorated-with-special-params":
            if version == "1.0":
                @action(name=name)
                async def fn(text=None, topic=None, stage=None, context=None, events=None, config=None, llm_task_manager=None, llm=None, _s=site):
                    return await sc.ahit(_s, text if topic is None else topic)
            else:
                @action(name=name)
                async def fn(text=None, topic=None, stage=None, context=None, events=None, config=None, llm_task_manager=None, state=None, _s=site):
                    return await sc.ahit(_s, text if topic is None else topic)
            app.register_action(fn)
        else:
            raise AssertionError(style)
    if version != "1.0":
        async def llm_text():
            t = sc.turns[sc.turn]["llm"]
            sc.llm_calls.append((sc.turn, t))
            return t
        app.register_action(llm_text, "llm_text")


class _World:
    """one LLMRails app per Colang version, reused across scenarios (actions re-registered, caches cleared)"""

    def __init__(self):
        import asyncio
        self.loop = asyncio.new_event_loop()
        self.apps = {}
        self.llm = {}
        self.saved_state_to_json = None

    def app(self, version, variant="A", fresh=False):
        from nemoguardrails import LLMRails, RailsConfig
        from tests.utils import FakeLLM
        key = (version, variant)
        if fresh or key not in self.apps:
            if version == "1.0":
                cfg = RailsConfig.from_content(colang_content=V1_CO if variant == "A" else V1B_CO, yaml_content=V1_YAML)
            else:
                cfg = RailsConfig.from_content(colang_content=V2_CO if variant == "A" else V2B_CO, yaml_content=V2_YAML)
            llm = FakeLLM(responses=[])
            self.apps[key] = LLMRails(cfg, llm=llm)
            self.llm[key] = llm
        return self.apps[key], self.llm[key]

    def fast_state(self, on):
        """2.x: skip the JSON encoding of the output state (the State object itself is handed to the next turn)"""
        from nemoguardrails.rails.llm import llmrails as mod
        if on and self.saved_state_to_json is None:
            self.saved_state_to_json = mod.state_to_json
            mod.state_to_json = lambda s: s
        elif not on and self.saved_state_to_json is not None:
            mod.state_to_json = self.saved_state_to_json
            self.saved_state_to_json = None

    def close(self):
        import asyncio
        self.fast_state(False)
        try:
            self.loop.close()
        except Exception:
            pass
        try:
            asyncio.set_event_loop(asyncio.new_event_loop())
        except Exception:
            pass


def _make_turns(rng, shape):
    turns = []
    for t, kind in enumerate(shape):
        tag = "%03d" % rng.randrange(1000)
        user = "hello t%d u%s" % (t, tag) + (" " + BLOCK_IN if kind == "bad_in" else "")
        marker = "LLMTEXT-t%d-%s" % (t, tag)
        llm = marker + " answer" + (" " + BLOCK_OUT if kind == "bad_out" else "")
        turns.append(dict(kind=kind, user=user, llm=llm, marker=marker))
    return turns


def _converse(world, version, style, turns, faults, mode, variant="A", time_limit=20.0):
    """run the conversation; returns (scenario, replies) where replies[t] is a str, or ('raised', exc) for the turn at which
    generate raised / did not return (the conversation stops there)"""
    import asyncio
    import contextlib
    import io
    sc = _Scenario(turns, faults, blocked_flag=(version == "1.0" and variant == "B"))
    app, llm = world.app(version, variant)
    if version == "1.0":
        app.events_history_cache.clear()
    _register_actions(app, version, style, sc)
    world.fast_state(version != "1.0" and mode == "fast")
    replies = []
    messages = []
    state = None
    sink = io.StringIO()
    for t, turn in enumerate(turns):
        sc.turn = t
        llm.responses = ["  express greeting", '  "%s"' % turn["llm"]]
        llm.i = 0
        user_msg = {"role": "user", "content": turn["user"]}
        if version == "1.0" and mode != "state":
            messages.append(user_msg)
            factory = lambda: app.generate_async(messages=list(messages))
        elif version == "1.0":
            factory = lambda: app.generate_async(messages=[user_msg], state=state if state is not None else {})
        else:
            factory = lambda: app.generate_async(messages=[user_msg], state=state if state is not None else {})
        with contextlib.redirect_stdout(sink), contextlib.redirect_stderr(sink):
            res, ex = _run_guarded(world.loop, factory, time_limit)
        if ex is not None:
            replies.append(("raised", ex))
            break
        try:
            if isinstance(res, dict):
                msg = res
            else:
                msg = res.response[0]
                state = res.state
                if version != "1.0" and mode == "fast":
                    state = res.state["state"]
            replies.append(msg)
            if version == "1.0" and mode != "state":
                messages.append(msg)
        except Exception as ex2:
            replies.append(("raised", ex2))
            break
    return sc, replies


def _fmt_calls(entries):
    return [(SITE_NAME[s].split(" action ")[0] + " " + SITE_NAME[s].split(" ")[-1], txt, out) for _, s, txt, out, _ in entries]


def _judge(sc, replies, faulted_run):
    """returns list of (clause key, turn, outcome text, signature)"""
    out = []
    first_fault_turn = None
    allowed_lines = {REF_IN, REF_OUT, ERR}
    for t, turn in enumerate(sc.turns):
        if t >= len(replies):
            break
        rep = replies[t]
        entries = [e for e in sc.log if e[0] == t]
        raised = [e for e in entries if str(e[3]).startswith("raised")]
        if raised and first_fault_turn is None:
            first_fault_turn = t
        after_fault = first_fault_turn is not None and t > first_fault_turn
        calls_txt = "action calls in this turn: %s" % (_fmt_calls(entries),)
        if isinstance(rep, tuple):
            ex = rep[1]
            out.append(("contain" if faulted_run else "baseline", t,
                        "generate %s %s; %s" % ("did not return:" if isinstance(ex, TimeoutError) else "raised", _exc_text(ex), calls_txt),
                        "raised-" + type(ex).__name__))
            break
        content = rep.get("content") if isinstance(rep, dict) else None
        if not isinstance(rep, dict) or rep.get("role") != "assistant" or not isinstance(content, str):
            out.append(("contain" if faulted_run else "baseline", t, "generate returned %r; %s" % (rep, calls_txt), "not-a-message"))
            continue
        marker = turn["marker"]
        has_llm = marker in content
        in_calls = [e for e in entries if e[1] == "input"]
        out_calls = [e for e in entries if e[1] == "output" and (e[2] is None or marker in str(e[2]))]
        reasons = []     # (is a raise, text)
        if not any(e[2] == turn["user"] or e[3] == "raised-in-ctor" for e in in_calls):
            reasons.append((False, "the input rail action was not invoked with this turn's user message"))
        for e in in_calls:
            if str(e[3]).startswith("raised"):
                reasons.append((True, "the input rail action raised"))
            elif e[3] is False:
                reasons.append((False, "the input rail action rejected the user message"))
        if not out_calls:
            reasons.append((False, "the output rail action was not invoked on the LLM text"))
        for e in out_calls:
            if str(e[3]).startswith("raised"):
                reasons.append((True, "the output rail action raised"))
            elif e[3] is False:
                reasons.append((False, "the output rail action rejected the LLM text"))
        rail_raised = any(str(e[3]).startswith("raised") and e[1] in ("input", "output", "audit") for e in entries)
        lines = [l for l in content.split("\n")]
        only_refusals = bool(content.strip()) and all(l in allowed_lines for l in lines)

        if not faulted_run:
            want = dict(ok=turn["llm"], bad_in=REF_IN, bad_out=REF_OUT)[turn["kind"]]
            if content != want:
                out.append(("baseline", t, "reply %r, expected %r; %s" % (content, want, calls_txt), "reply"))
            elif has_llm and reasons:
                out.append(("baseline", t, "reply %r although %s; %s" % (content, "; ".join(r for _, r in reasons), calls_txt), "unapproved"))
            elif not any(e[2] == turn["user"] for e in in_calls):
                out.append(("baseline", t, "input rail action not invoked; %s" % calls_txt, "no-input-rail"))
            continue

        if has_llm and reasons:
            by_raise = [r for is_raise, r in reasons if is_raise]
            key = "closed" if by_raise else "active"
            if key == "closed" or first_fault_turn is not None:
                why = "; ".join(r for _, r in reasons)
                out.append((key, t, "the reply contains the unchecked LLM text: reply=%r although %s; %s" % (content, why, calls_txt),
                            "unchecked:" + why))
        elif rail_raised and not only_refusals:
            out.append(("closed", t, "a rail action raised in this turn but the reply is neither a refusal nor the internal-error "
                                     "message: reply=%r; %s" % (content, calls_txt), "not-a-refusal"))
        if after_fault:
            if not any(e[2] == turn["user"] or e[3] == "raised-in-ctor" for e in in_calls):
                if not (has_llm and reasons):
                    out.append(("active", t, "the input rail action was not invoked with the user message %r: reply=%r; %s" % (
                        turn["user"], content, calls_txt), "input-rail-not-invoked"))
            if not raised and turn["kind"] == "ok" and content != turn["llm"] and not (has_llm and reasons):
                out.append(("live", t, "fault-free benign turn after the fault in turn %d: reply=%r, expected the approved LLM text %r; %s" % (
                    first_fault_turn, content, turn["llm"], calls_txt), "reply:" + content[:24]))
            if not raised and turn["kind"] != "ok" and not has_llm and not only_refusals:
                out.append(("active", t, "fault-free turn with rejected %s after the fault in turn %d: reply=%r is not the refusal; %s" % (
                    "input" if turn["kind"] == "bad_in" else "LLM text", first_fault_turn, content, calls_txt), "no-refusal"))
    return out


def _generate_checks(rng, tier, version):
    import itertools
    import time
    thorough = tier == "thorough"
    vtag = "Colang " + version
    file = RT1 if version == "1.0" else RT2
    cols = {k: _Collector("LLMRails.generate, %s: %s" % (vtag, k), file, cap=5) for k in ("baseline", "contain", "closed", "active", "live")}
    col_ctor = _Collector("LLMRails.generate, %s: class-registered action whose constructor raises" % vtag, file, cap=3)
    evals = {k: 0 for k in cols}
    n_ctor = 0
    seen = set()
    seen_ctor = set()
    world = _World()
    t0 = time.time()
    budget = 420.0 if thorough else 22.0
    skipped = 0
    n_scen = 0
    n_real_state = 0
    try:
        _register_fake_embeddings()
        shapes_main = [("ok", "ok", "bad_out"), ("ok", "bad_in", "ok")]
        shapes_more = [("ok", "ok"), ("bad_in", "ok", "bad_out"), ("ok", "ok", "ok")]
        kind_cycle = itertools.cycle(KIND_NAMES[:12] if not thorough else KIND_NAMES[:16])    # (StopIteration, the 17th, only in family D)

        def describe(faults, sc):
            where = {e[4]: (e[0], e[1], e[2]) for e in sc.log if str(e[3]).startswith("raised")}
            return ["%s raised at action call #%d (%s)" % (k, i, ("turn %d, %s called with %r" % (where[i][0], SITE_NAME[where[i][1]], where[i][2]))
                                                         if i in where else "not reached") for i, k in sorted(faults.items())]

        VARIANT = dict(A="config A (rails: `$ok = <check action>`, `if not $ok` -> refuse, stop/abort)",
                       B="config B (rails call a second custom action audit_log before refusing%s)" % (
                           "; the check actions return a blocked flag: `$blocked = execute check_input`, `if $blocked`" if version == "1.0" else ""))

        def scenario(variant, style, shape, turns, faults, mode, collector_override=None):
            nonlocal n_scen, n_ctor
            n_scen += 1
            sc, replies = _converse(world, version, style, turns, faults, mode, variant)
            fired = [e for e in sc.log if str(e[3]).startswith("raised")]
            problems = _judge(sc, replies, faulted_run=True)
            turns_done = len(replies)
            ident = (variant, style, shape, tuple(sorted(faults.items())), mode)
            if collector_override is not None:
                n_ctor += turns_done
                seen_ctor.add(ident)
            else:
                for k in ("contain", "closed", "active", "live"):
                    evals[k] += turns_done
                seen.add(ident)
            for key, t, text, sig in problems:
                inputs = ("%s; %s; the test's actions registered as %s; %s; conversation %s; faults: %s; turn %d: user=%r, LLM text=%r" % (
                    vtag, VARIANT[variant], style,
                    "multi-turn via " + dict(fast="state object (JSON encoding of the state skipped)", real="state= (JSON state)",
                                             messages="messages history", state="state= (events)")[mode],
                    list(shape), describe(faults, sc), t, turns[t]["user"], turns[t]["llm"]))
                (collector_override or cols[key]).add(key, inputs, text, sig=(sig, fired[0][1] if fired else None))
            if any(k == "contain" for k, _, _, _ in problems):
                world.app(version, variant, fresh=True)   # do not let a broken run leak into the next scenario
            return sc

        def baseline(variant, style, shape, mode):
            turns = _make_turns(rng, shape)
            sc, replies = _converse(world, version, style, turns, {}, mode, variant)
            evals["baseline"] += len(replies)
            for key, t, text, sig in _judge(sc, replies, faulted_run=False):
                cols["baseline"].add("baseline", "%s; %s; the test's actions registered as %s; conversation %s; no faults; turn %d: user=%r, LLM text=%r" % (
                    vtag, VARIANT[variant], style, list(shape), t, turns[t]["user"], turns[t]["llm"]), text, sig=sig)
            return turns, sc

        def modes():
            if version == "1.0":
                return itertools.cycle(["messages", "messages", "state"])
            return itertools.cycle(["fast"] * 7 + ["real"] if not thorough else ["fast", "fast", "fast", "real"])

        mode_cycle = modes()
        shapes_b = [("bad_in", "bad_in", "ok"), ("bad_out", "bad_out", "ok") if version == "1.0" else ("ok", "bad_out")]
        jobs = []
        for si, style in enumerate(STYLES):
            if thorough:
                shapes = (shapes_main + shapes_more) if si == 0 else (shapes_main + shapes_more[:1])
            else:
                shapes = shapes_main if si == 0 else [shapes_more[0]]
            for shape in shapes:
                jobs.append(("A", style, shape))
        for si, style in enumerate(STYLES if thorough else [STYLES[0], STYLES[1 + rng.randrange(len(STYLES) - 1)]]):
            for shape in (shapes_b if thorough or si == 0 else shapes_b[:1]):
                jobs.append(("B", style, shape))
        for ji, (variant, style, shape) in enumerate(jobs):
            if time.time() - t0 > budget:
                skipped += 1
                continue
            base_mode = "messages" if version == "1.0" else "fast"
            turns, base_sc = baseline(variant, style, shape, base_mode)
            n_calls = base_sc.calls
            singles = list(range(1, n_calls + 1))
            pairs = list(itertools.combinations(singles, 2))
            if thorough:
                if style != STYLES[0]:
                    pairs = rng.sample(pairs, min(len(pairs), 8))
            else:
                pairs = rng.sample(pairs, min(len(pairs), (10 if variant == "A" else 4) if style == STYLES[0] else 2))
            all_kinds = thorough and ji == 0
            for i in singles:
                for k in ([x for x in KIND_NAMES if x != "StopIteration()"] if all_kinds else [next(kind_cycle)]):
                    if time.time() - t0 > budget:
                        skipped += 1
                        continue
                    mode = next(mode_cycle)
                    n_real_state += mode == "real"
                    scenario(variant, style, shape, turns, {i: k}, mode)
            for i, j in pairs:
                if time.time() - t0 > budget:
                    skipped += 1
                    continue
                mode = next(mode_cycle)
                n_real_state += mode == "real"
                scenario(variant, style, shape, turns, {i: next(kind_cycle), j: next(kind_cycle)}, mode)
        # class-registered actions whose constructor raises
        shape = ("ok", "ok")
        turns, base_sc = baseline("A", "class-with-run", shape, "messages" if version == "1.0" else "fast")
        ctor_faults = [{1: "RuntimeError('msg')"}, {2: "bare-assert"}, {3: "custom-exception-no-args"}, {1: "KeyError()", 2: "RuntimeError('msg')"}]
        if thorough:
            ctor_faults += [{i: k} for i in (1, 2, 3) for k in KIND_NAMES[:12]]
        for faults in ctor_faults:
            world.app(version, "A", fresh=True)
            scenario("A", CTOR_STYLE, shape, turns, faults, "messages" if version == "1.0" else "fast", collector_override=col_ctor)
        world.app(version, "A", fresh=True)
    finally:
        world.close()
    bound = ("%s: own configs with an input rail, an output rail and a dialog action implemented by custom actions (config A: "
             "`$ok = <action>` / `if not $ok` -> refuse, stop/abort; config B: the rails additionally call an audit action before refusing%s), "
             "actions registered as %s; conversations of 2-3 turns (benign / input rejected by the rail / LLM text rejected by the rail; "
             "shapes %s); faults at every single global action-call index of the fault-free run and at %s pairs "
             "i<j, exception kinds cycled over %d kinds (with message, bare assert, real asyncio.wait_for timeout, KeyError(), bare raise, "
             "custom classes, ...); %d faulted conversations; %s; LLM = scripted FakeLLM (1.0) / a never-failing stand-in action (2.x); "
             "%d scenarios skipped by the time budget" % (
                 vtag, ", with a blocked-flag check action" if version == "1.0" else "", ", ".join(STYLES),
                 sorted({"%s:%s" % (v, "/".join(sh)) for v, _, sh in jobs}),
                 "all (first style) / 8 random (other styles)" if thorough else "10 (first style) / 2-4 (other styles, config B) random", 16 if thorough else 12, n_scen,
                 ("multi-turn through the messages history and through state=" if version == "1.0" else
                  "state handed from turn to turn as State object with the JSON encoding skipped, %d conversations through the real JSON state" % n_real_state),
                 skipped))
    for k in ("baseline", "contain", "closed", "active", "live"):
        c = cols[k]
        yield dict(function=c.function, evaluations=evals[k], distinct=len(seen) if k != "baseline" else len(jobs) + 1,
                   failures=len(c.failing()), failing=c.failing(), total_failed_turns=c.count, bound=bound + "; oracle: " + CLAUSE[k])
    yield dict(function=col_ctor.function, evaluations=n_ctor, distinct=len(seen_ctor), failures=len(col_ctor.failing()),
               failing=col_ctor.failing(), total_failed_turns=col_ctor.count,
               bound="%s: same config, the three actions registered as classes (instantiated lazily at first use) whose constructor raises "
                     "at the scheduled call; %d fault schedules over a 2-turn conversation; all four oracles" % (vtag, len(ctor_faults)))


# ---------------------------------------------------------------------------------------------
# family L: rails shipped in the library, their action replaced by a raising one
# ---------------------------------------------------------------------------------------------
_GUARD_OK = {"allowed": True, "policy_violations": []}
# (package below nemoguardrails/library, direction, flow invocation, registered action name, value that lets the content pass)
LIB_RAILS_V2 = [
    ("self_check/input_check", "input", "self check input", "self_check_input", True),
    ("jailbreak_detection", "input", "jailbreak detection heuristics", "jailbreak_detection_heuristics", False),
    ("sensitive_data_detection", "input", "detect sensitive data on input", "detect_sensitive_data", False),
    ("llama_guard", "input", "llama guard check input", "llama_guard_check_input", _GUARD_OK),
    ("content_safety", "input", 'content safety check input $model="m"', "content_safety_check_input", _GUARD_OK),
    ("autoalign", "input", "autoalign check input", "autoalign_input_api", {"guardrails_triggered": False, "pii_fast": None}),
    ("self_check/output_check", "output", "self check output", "self_check_output", True),
    ("sensitive_data_detection", "output", "detect sensitive data on output", "detect_sensitive_data", False),
    ("llama_guard", "output", "llama guard check output", "llama_guard_check_output", _GUARD_OK),
    ("content_safety", "output", 'content safety check output $model="m"', "content_safety_check_output", _GUARD_OK),
    ("autoalign", "output", "autoalign check output", "autoalign_output_api",
     {"guardrails_triggered": False, "pii_fast": {"guarded": False, "response": ""}}),
    ("patronusai", "output", "patronus lynx check output hallucination", "patronus_lynx_check_output_hallucination",
     {"hallucination": False, "reasoning": ""}),
]
LIB_RAILS_V1 = [
    ("self_check/input_check", "input", "self check input", "self_check_input", True),
    ("jailbreak_detection", "input", "jailbreak detection heuristics", "jailbreak_detection_heuristics", False),
    ("sensitive_data_detection", "input", "detect sensitive data on input", "detect_sensitive_data", False),
    ("llama_guard", "input", "llama guard check input", "llama_guard_check_input", _GUARD_OK),
    ("activefence", "input", "activefence moderation", "call activefence api", {"max_risk_score": 0.0, "violations": {}}),
    ("gcp_moderate_text", "input", "gcpnlp moderation", "call gcpnlp api", {"max_risk_score": 0.0, "violations": {}}),
    ("self_check/output_check", "output", "self check output", "self_check_output", True),
    ("sensitive_data_detection", "output", "detect sensitive data on output", "detect_sensitive_data", False),
    ("llama_guard", "output", "llama guard check output", "llama_guard_check_output", _GUARD_OK),
    ("patronusai", "output", "patronus lynx check output hallucination", "patronus_lynx_check_output_hallucination",
     {"hallucination": False, "reasoning": ""}),
]

LIB_V2_CO = """
import core
import guardrails
import nemoguardrails.library.%s

flow main
  activate greeting

flow greeting
  user said something
  $text = await LlmTextAction()
  bot say $text

flow %s rails $%s_text
  %s
"""

LIB_V1_CO = """
define user express greeting
  "hello"
  "hi there"

define flow greeting
  user express greeting
  bot express greeting
"""

LIB_V1_YAML = """
models:
  - type: main
    engine: openai
    model: gpt-3.5-turbo-instruct
  - type: embeddings
    engine: c03_fake_embed
    model: fake
rails:
  %s:
    flows:
      - %s
prompts:
  - task: self_check_input
    content: "check {{ user_input }}"
  - task: self_check_output
    content: "check {{ bot_response }}"
  - task: llama_guard_check_input
    content: "check {{ user_input }}"
  - task: llama_guard_check_output
    content: "check {{ user_input }} {{ bot_response }}"
  - task: patronus_lynx_check_output_hallucination
    content: "check {{ user_input }} {{ bot_response }}"
"""


def _library_checks(rng, tier, version):
    import asyncio
    import contextlib
    import io
    import os
    import time
    from nemoguardrails import LLMRails, RailsConfig
    from nemoguardrails.rails.llm import config as config_mod
    from nemoguardrails.rails.llm import llmrails as llmrails_mod
    from tests.utils import FakeLLM
    import nemoguardrails

    thorough = tier == "thorough"
    vtag = "Colang " + version
    col = _Collector("LLMRails.generate, %s: rails shipped in the library with a failing action" % vtag, RT1 if version == "1.0" else RT2, cap=8)
    items = LIB_RAILS_V1 if version == "1.0" else LIB_RAILS_V2
    n = 0
    seen = set()
    not_exercised = []
    loop = asyncio.new_event_loop()
    pkg_root = os.path.dirname(os.path.dirname(os.path.abspath(nemoguardrails.__file__)))
    added_path = False
    saved_s2j = llmrails_mod.state_to_json
    t0 = time.time()
    budget = 120.0 if thorough else 9.0
    kinds_all = [k for k in KIND_NAMES if k != "StopIteration()"]
    try:
        _register_fake_embeddings()
        if pkg_root not in config_mod.colang_path_dirs:
            config_mod.colang_path_dirs.append(pkg_root)     # same effect as COLANGPATH=<site dir>: resolves `import nemoguardrails.library...`
            added_path = True
        if version != "1.0":
            llmrails_mod.state_to_json = lambda st: st
        for idx, (pkg, direction, call, action_name, allow) in enumerate(items):
            flow_file = "nemoguardrails/library/%s/%s" % (pkg, "flows.v1.co" if version == "1.0" and os.path.exists(
                os.path.join(pkg_root, "nemoguardrails", "library", pkg, "flows.v1.co")) else "flows.co")
            kinds = kinds_all if thorough else [kinds_all[(2 * idx) % len(kinds_all)], ["bare-assert", "KeyError()", "asyncio.TimeoutError()"][idx % 3]]
            for fault_kind in [None] + kinds:
                if time.time() - t0 > budget:
                    if fault_kind is None:
                        not_exercised.append(call + " (time budget)")
                    break
                st = dict(calls=0, log=[], turn=0)
                turns = _make_turns(rng, ("ok", "ok"))

                async def act(_st=st, _k=fault_kind, _allow=allow, **kw):
                    _st["calls"] += 1
                    if _k is not None and _st["calls"] == 1:
                        _st["log"].append((_st["turn"], "raised"))
                        await _araise(_k)
                    _st["log"].append((_st["turn"], "returned"))
                    return _allow

                sink = io.StringIO()
                try:
                    with contextlib.redirect_stdout(sink), contextlib.redirect_stderr(sink):
                        if version == "1.0":
                            cfg = RailsConfig.from_content(colang_content=LIB_V1_CO, yaml_content=LIB_V1_YAML % (direction, call))
                        else:
                            cfg = RailsConfig.from_content(colang_content=LIB_V2_CO % (pkg.replace("/", "."), direction, direction, call),
                                                           yaml_content=V2_YAML)
                        llm = FakeLLM(responses=[])
                        app = LLMRails(cfg, llm=llm)
                    if action_name not in app.runtime.action_dispatcher.registered_actions:
                        raise KeyError("library action %r is not registered" % action_name)
                except Exception as ex:
                    not_exercised.append("%s (%s)" % (call, _exc_text(ex)[:80]))
                    break
                app.register_action(act, action_name)
                if version != "1.0":
                    async def llm_text(_st=st, _turns=turns):
                        return _turns[_st["turn"]]["llm"]
                    app.register_action(llm_text, "llm_text")
                replies = []
                messages = []
                state = None
                for t, turn in enumerate(turns):
                    st["turn"] = t
                    llm.responses = ["  express greeting", '  "%s"' % turn["llm"]]
                    llm.i = 0
                    user_msg = {"role": "user", "content": turn["user"]}
                    if version == "1.0":
                        messages.append(user_msg)
                        factory = lambda: app.generate_async(messages=list(messages))
                    else:
                        factory = lambda: app.generate_async(messages=[user_msg], state=state if state is not None else {})
                    with contextlib.redirect_stdout(sink), contextlib.redirect_stderr(sink):
                        res, ex = _run_guarded(loop, factory, 20.0)
                    if ex is not None:
                        replies.append(("raised", ex))
                        break
                    if isinstance(res, dict):
                        msg = res
                        messages.append(msg)
                    else:
                        msg = res.response[0]
                        state = res.state["state"]
                    replies.append(msg)
                    if fault_kind is None:
                        break
                where = ("%s; rail shipped in the library `%s` (%s) configured as %s rail; its action %s replaced by one that %s; " % (
                    vtag, call, flow_file, direction, action_name,
                    "returns %r" % (allow,) if fault_kind is None else "raises %s at its first call and returns %r afterwards" % (fault_kind, allow)))
                if fault_kind is None:
                    r0 = replies[0]
                    if isinstance(r0, tuple) or r0.get("content") != turns[0]["llm"] or st["log"] != [(0, "returned")]:
                        not_exercised.append("%s (fault-free run: reply %r, action calls %r)" % (
                            call, _exc_text(r0[1]) if isinstance(r0, tuple) else r0.get("content"), st["log"]))
                        break
                    continue
                n += len(replies)
                seen.add((call, direction, fault_kind))
                for t, rep in enumerate(replies):
                    desc = where + "turn %d: user=%r, LLM text=%r" % (t, turns[t]["user"], turns[t]["llm"])
                    calls_t = [o for tt, o in st["log"] if tt == t]
                    if isinstance(rep, tuple):
                        col.add("contain", desc, "generate raised %s; calls of the rail's action in this turn: %s" % (_exc_text(rep[1]), calls_t),
                                sig=(call, "raised"))
                        break
                    content = rep.get("content")
                    if not isinstance(content, str):
                        col.add("contain", desc, "generate returned %r" % (rep,), sig=(call, "shape"))
                        continue
                    if t == 0:
                        if calls_t != ["raised"]:
                            not_exercised.append("%s (faulted run: action calls %r)" % (call, calls_t))
                        elif turns[0]["marker"] in content:
                            col.add("lib", desc, "the rail's action raised, the reply is the unchecked LLM text: reply=%r" % content, sig=(call, "open"))
                    else:
                        if "returned" not in calls_t:
                            col.add("active", desc, "in the turn after the fault the rail's action was not invoked: reply=%r, calls of the rail's "
                                                    "action in this turn: %s" % (content, calls_t), sig=(call, "inactive"))
                        elif content != turns[t]["llm"]:
                            col.add("live", desc, "in the fault-free turn after the fault the rail's action returned %r but the reply is %r, "
                                                  "expected the approved LLM text" % (allow, content), sig=(call, "dead"))
    finally:
        llmrails_mod.state_to_json = saved_s2j
        if added_path:
            try:
                config_mod.colang_path_dirs.remove(pkg_root)
            except ValueError:
                pass
        loop.close()
        try:
            asyncio.set_event_loop(asyncio.new_event_loop())
        except Exception:
            pass
    yield dict(function=col.function, evaluations=n, distinct=len(seen), failures=len(col.failing()), failing=col.failing(),
               total_failed_turns=col.count,
               bound="%s: %d shipped rails (%s), each as the only %s rail of a minimal config, its (network/LLM backed) action replaced by a "
                     "recorder that raises at its first call (%s exception kinds per rail) and otherwise returns the passing value; 2 turns; "
                     "oracles: generate returns; turn 0 reply is not the unchecked LLM text; in turn 1 the action is invoked again and the "
                     "approved LLM text is returned; not exercised: %s" % (
                         vtag, len(items), ", ".join(i[2] for i in items), "input/output", "all" if thorough else "2", not_exercised or "none"))


def native_checks(rng, tier):
    import logging
    import warnings
    logging.disable(logging.CRITICAL)
    with warnings.catch_warnings():
        warnings.simplefilter("ignore")
        recs = list(_dispatcher_checks(rng, tier))
    for rec in recs:
        yield rec
    for version in ("1.0", "2.x"):
        for rec in _generate_checks(rng, tier, version):
            yield rec
    for version in ("1.0", "2.x"):
        for rec in _library_checks(rng, tier, version):
            yield rec
