"""C05 — "exactly one of them proceeds ... and all the others fail; flows that try to start an identical action all proceed and that
action is started once ... a flow whose match did not fit the event is left untouched": what `_resolve_action_conflicts` does with every
head of a group once the winner is picked.

Contracts on nemoguardrails/colang/v2_x/runtime/statemachine.py (heap mode), with ghost traces `generated` (heads handed to
`_generate_action_event_from_actionable_element`), `aborted` (flow states handed to `_abort_flow`), `cmp` (results of `Event.is_equal`):

  STEP   the BODY of `for head in ordered_heads:` (range block, loop_body) - for ONE head of the group, any winner, any state:
           head is the picked head (same uid)                     -> nothing happens (no abort, no action event, not appended again)
           its event equals the winner's                          -> it advances (appended to advancing_heads), no second action event, no abort
           different event, a catch label is set                  -> it is moved to that label and advances, no abort, no action event
           different event, no catch label                        -> its flow - exactly that one - is handed to `_abort_flow`, it does not advance
  REDIR  the `if isinstance(winning_event, ActionEvent) and ...` statement inside STEP (summarised there, verified here): the co-winner's
         references to its own (never started) action are redirected to the winner's action - its entry in `state.actions` is removed, the
         uid in `action_uids` replaced in place, context variables holding the action now hold the winner's - and nothing else is touched
  WIN    the two statements `advancing_heads.append(picked_head)` .. `_generate_action_event_...(state, picked_head)`: the winner advances and
         exactly one action event - the winner's - is generated per group
  get_flow_state_from_head / get_flow_config_from_head: the look-ups used above

Assumed (listed in the evidence): A-EVENT `get_event_from_element` changes no existing object (it may fail: class EvalError stands for whatever
it raises); A-ABORT `_abort_flow` never reaches the caller's local list `advancing_heads`; A-POS-SETTER the `FlowHead.position` setter stores
the position (its callback may change anything else reachable from the state); `Event.is_equal` is a pure comparison whose outcome is
recorded in `cmp`; A-ACTIONABLE every head handed in stands on an action element (`SpecOp`) of its flow - what `_advance_head_front`
returns.  NOT under contract: the grouping by interaction loop and the ordering / tie-break that picks the winner (bounded native check
only, see C05_native)."""
from pyvc.api import *

SM = "nemoguardrails/colang/v2_x/runtime/statemachine.py"
FLOWS = "nemoguardrails/colang/v2_x/runtime/flows.py"
classes({"State": [], "FlowHead": [], "FlowState": [], "FlowConfig": [], "SpecOp": [], "Event": [], "ActionEvent": ["Event"], "Action": [],
         "EvalError": ["Exception"]})
eq_by("FlowHead", "uid", FLOWS)

STATE = ["is_obj(state)", "has(state, 'flow_states')", "has(state, 'flow_configs')", "has(state, 'actions')",
         "is_dict(state.flow_states)", "is_dict(state.flow_configs)", "is_dict(state.actions)",
         "state.flow_states is not state.flow_configs", "state.flow_states is not state.actions", "state.flow_configs is not state.actions"]


def HEAD(h):
    """a head of a known flow instance that stands on an action element of its flow (A-ACTIONABLE)"""
    fs = "val(state.flow_states, %s.flow_state_uid)" % h
    cfg = "val(state.flow_configs, %s.flow_id)" % fs
    return [w.replace("HEAD", h).replace("FS", fs).replace("CFG", cfg) for w in [
        "is_inst(HEAD, 'FlowHead')", "has(HEAD, 'uid')", "is_str(HEAD.uid)", "has(HEAD, 'flow_state_uid')", "has(HEAD, 'position')",
        "is_int(HEAD.position)", "has(HEAD, 'matching_scores')", "has(HEAD, 'catch_pattern_failure_label')",
        "is_list(HEAD.catch_pattern_failure_label)",
        "has(state.flow_states, HEAD.flow_state_uid)", "is_inst(FS, 'FlowState')", "has(FS, 'flow_id')", "has(FS, 'context')",
        "has(FS, 'action_uids')", "is_dict(FS.context)", "is_list(FS.action_uids)", "FS.context is not state.actions",
        "all(implies(is_inst(val(FS.context, k), 'Action'), has(val(FS.context, k), 'uid') and has(val(FS.context, k), 'flow_scope_count') and "
        "    is_int(val(FS.context, k).flow_scope_count)) for k in keys(FS.context))",
        "has(state.flow_configs, FS.flow_id)", "is_obj(CFG)", "has(CFG, 'elements')", "has(CFG, 'element_labels')",
        "is_list(CFG.elements)", "is_dict(CFG.element_labels)", "all(is_int(val(CFG.element_labels, k)) for k in keys(CFG.element_labels))",
        "0 <= HEAD.position", "HEAD.position < llen(CFG.elements)", "is_inst(item(CFG.elements, HEAD.position), 'SpecOp')"]]


contract(SM, "get_flow_state_from_head", prop="X05",
         requires=["is_obj(state)", "has(state, 'flow_states')", "is_dict(state.flow_states)", "is_obj(head)", "has(head, 'flow_state_uid')",
                   "has(state.flow_states, head.flow_state_uid)"],
         ensures=["result is val(state.flow_states, head.flow_state_uid)"], raises={}, assigns=[])
contract(SM, "get_flow_config_from_head", prop="X05",
         requires=["is_obj(state)", "has(state, 'flow_states')", "is_dict(state.flow_states)", "is_obj(head)", "has(head, 'flow_state_uid')",
                   "has(state.flow_states, head.flow_state_uid)", "has(state, 'flow_configs')", "is_dict(state.flow_configs)",
                   "is_obj(val(state.flow_states, head.flow_state_uid))", "has(val(state.flow_states, head.flow_state_uid), 'flow_id')",
                   "has(state.flow_configs, val(state.flow_states, head.flow_state_uid).flow_id)"],
         ensures=["result is val(state.flow_configs, val(state.flow_states, head.flow_state_uid).flow_id)"], raises={}, assigns=[])

opaque("get_event_from_element", assigns=[], raises=["EvalError"], log_result="events",
       ensures=["is_obj(result)", "implies(is_inst(result, 'ActionEvent'), has(result, 'action_uid') and (is_none(result.action_uid) or is_str(result.action_uid)))"],
       note="A-EVENT: get_event_from_element(state, flow_state, element) builds the event of an element and changes no existing object; whatever "
            "it raises is modelled by the class EvalError; its result is recorded in the ghost trace `events`")
opaque("is_equal", pure=True, result="b", raises=[], log_result="cmp",
       note="Event.is_equal(other): a pure comparison of name and arguments; the outcome is recorded in the ghost trace `cmp`")
opaque("_abort_flow", log="aborted", log_arg=1, raises=[], keep_locals=["advancing_heads"],
       note="A-ABORT: _abort_flow(state, flow_state, scores) may change anything reachable from the state but not the caller's local list "
            "`advancing_heads`; the flow state is recorded in the ghost trace `aborted`")
opaque("_generate_action_event_from_actionable_element", log="generated", log_arg=1, raises=["EvalError"], keep_locals=["advancing_heads"],
       note="_generate_action_event_from_actionable_element(state, head): arbitrary effect on the state (it creates the action and its start "
            "event), not on the caller's local list `advancing_heads`; the head is recorded in the ghost trace `generated`")
opaque("info", pure=True, raises=[], note="log.info: no effect")
setter("position", raises=[], keep_locals=["advancing_heads"], ensures=["has(recv, 'position')", "recv.position == arg0"],
       note="A-POS-SETTER: `head.position = p` (property setter of FlowHead) stores p; its change callback may modify anything else "
            "reachable from the state, not the caller's local list `advancing_heads`")

FS_HEAD = "val(state.flow_states, head.flow_state_uid)"
CFG_HEAD = "val(state.flow_configs, %s.flow_id)" % FS_HEAD
KEPT = "all(item(advancing_heads, j) is old(item(advancing_heads, j)) for j in range(old(llen(advancing_heads))))"
APPENDED = ("llen(advancing_heads) == old(llen(advancing_heads)) + 1 and item(advancing_heads, llen(advancing_heads) - 1) is head and " + KEPT)
NOT_APPENDED = "llen(advancing_heads) == old(llen(advancing_heads)) and " + KEPT
SAME = "(llen(cmp) == 1 and item(cmp, 0) is True)"
CATCH = "old(llen(head.catch_pattern_failure_label) > 0)"
REDIR_HDR = ("if isinstance(winning_event, ActionEvent) and winning_event.action_uid and isinstance(competing_event, ActionEvent) and "
             "competing_event.action_uid and (competing_event.action_uid != winning_event.action_uid)")

C = "old(head.uid != picked_head.uid) and not %s and %s"
EVENT = ["is_obj(EV)", "implies(is_inst(EV, 'ActionEvent'), has(EV, 'action_uid') and (is_none(EV.action_uid) or is_str(EV.action_uid)))"]

contract(
    SM, "_resolve_action_conflicts", prop="X05",
    block=("if head == picked_head", "if winning_event.is_equal(competing_event)"), loop_body=True,
    vars={"state": "V", "head": "V", "picked_head": "V", "winning_event": "V", "advancing_heads": "V"},
    ghost_lists=["aborted", "generated", "cmp", "events"],
    requires=STATE + HEAD("head") + ["is_inst(picked_head, 'FlowHead')", "has(picked_head, 'uid')", "is_str(picked_head.uid)",
                                     "is_list(advancing_heads)", "advancing_heads is not %s.action_uids" % FS_HEAD,
                                     "all(is_obj(val(state.actions, u)) and has(val(state.actions, u), 'uid') and has(val(state.actions, u), 'flow_scope_count') "
                                     "    and is_int(val(state.actions, u).flow_scope_count) for u in keys(state.actions))"] + [w.replace("EV", "winning_event") for w in EVENT],
    ensures=[
        "implies(%s, llen(aborted) == 0)" % (C % (SAME, CATCH)),
        "implies(%s, llen(advancing_heads) == old(llen(advancing_heads)) + 1)" % (C % (SAME, CATCH)),
        "implies(%s, item(advancing_heads, llen(advancing_heads) - 1) is head)" % (C % (SAME, CATCH)),
        "implies(%s, %s)" % (C % (SAME, CATCH), KEPT),
        "implies(%s, has(head, 'position'))" % (C % (SAME, CATCH)),
        "implies(%s, head.position == old(val(%s.element_labels, item(head.catch_pattern_failure_label, llen(head.catch_pattern_failure_label) - 1))))" % (C % (SAME, CATCH), CFG_HEAD),
    ],
    raises={"EvalError": "True", "KeyError": "True", "ValueError": "True"},
)

# ---------------------------------------------------------------------------------------------------------------------------
# REDIR: the co-winner lets go of its own action and holds the winner's instead
# ---------------------------------------------------------------------------------------------------------------------------
CFS = "competing_flow_state"
WUID, CUID = "winning_event.action_uid", "competing_event.action_uid"
ACT = ("(is_inst(winning_event, 'ActionEvent') and truthy(winning_event.action_uid) and is_inst(competing_event, 'ActionEvent') and "
       "truthy(competing_event.action_uid) and competing_event.action_uid != winning_event.action_uid)")
WA = "old(val(state.actions, winning_event.action_uid))"
ACTION_WF = "(has(%s, 'uid') and has(%s, 'flow_scope_count') and is_int(%s.flow_scope_count))"
OWN = "(is_inst(old(val(%s.context, k)), 'Action') and old(val(%s.context, k).uid == %s))" % (CFS, CFS, CUID)      # a variable holding the co-winner's own action
CTX_DONE = ("all(implies(%s, val(%s.context, k) is %s) and implies(not %s, val(%s.context, k) is old(val(%s.context, k))) "
            "    for k in keys_old(%s.context) if key_index(%s.context, k) < _k)" % (OWN, CFS, WA, OWN, CFS, CFS, CFS, CFS))
CTX_TODO = "all(val(%s.context, k) is old(val(%s.context, k)) for k in keys_old(%s.context) if key_index(%s.context, k) >= _k)" % (CFS, CFS, CFS, CFS)
CTX_KEYS = ("all(has(%s.context, k) for k in keys_old(%s.context)) and all(old(has(%s.context, k)) for k in keys(%s.context))" % (CFS, CFS, CFS, CFS))

contract(
    SM, "_resolve_action_conflicts", prop="X05", block=REDIR_HDR, summary=True, verify=False,
    vars={"state": "V", "winning_event": "V", "competing_event": "V", "competing_flow_state": "V"},
    requires=["is_obj(state)", "has(state, 'actions')", "is_dict(state.actions)"]
             + [w.replace("EV", "winning_event") for w in EVENT] + [w.replace("EV", "competing_event") for w in EVENT]
             + ["is_obj(%s)" % CFS, "has(%s, 'context')" % CFS, "has(%s, 'action_uids')" % CFS, "is_dict(%s.context)" % CFS,
                "is_list(%s.action_uids)" % CFS, "%s.context is not state.actions" % CFS,
                # every Action object (in the context, in the registry) has a uid and a scope count
                "all(implies(is_inst(val(%s.context, k), 'Action'), %s) for k in keys(%s.context))"
                % (CFS, ACTION_WF % (("val(%s.context, k)" % CFS,) * 3), CFS),
                "all(is_obj(val(state.actions, u)) and %s for u in keys(state.actions))" % (ACTION_WF % (("val(state.actions, u)",) * 3))],
    ensures=[
        # not two action events, or both name the SAME action (flows that already share it): nothing is touched
        "implies(not old(%s), unchanged(state.actions) and unchanged(%s.context) and unchanged(%s.action_uids))" % (ACT, CFS, CFS),
        # the co-winner's own action is no longer registered; every other action stays, as the same object
        "implies(old(%s), not has(state.actions, old(%s)))" % (ACT, CUID),
        "implies(old(%s), all(implies(u != old(%s), has(state.actions, u) and val(state.actions, u) is old(val(state.actions, u))) "
        "                     for u in keys_old(state.actions)))" % (ACT, CUID),
        "all(old(has(state.actions, u)) for u in keys(state.actions))",
        # the first occurrence of its uid in action_uids now names the winner's action; the list is otherwise the same
        "llen(%s.action_uids) == old(llen(%s.action_uids))" % (CFS, CFS),
        "implies(old(%s), any(old(item(%s.action_uids, j) == %s) and item(%s.action_uids, j) is old(%s) and "
        "                     all(implies(i != j, item(%s.action_uids, i) is old(item(%s.action_uids, i))) for i in range(llen(%s.action_uids))) "
        "                     for j in range(llen(%s.action_uids))))" % (ACT, CFS, CUID, CFS, WUID, CFS, CFS, CFS, CFS),
        # context variables that held its own action hold the winner's action object; all others are untouched
        "implies(old(%s), all(implies(%s, val(%s.context, k) is %s) and implies(not %s, val(%s.context, k) is old(val(%s.context, k))) "
        "                     for k in keys_old(%s.context)))" % (ACT, OWN, CFS, WA, OWN, CFS, CFS, CFS),
        CTX_KEYS,
    ],
    raises={"KeyError": "True", "ValueError": "True"},       # winner's action not registered / uid not listed: not excluded here
    assigns=["state.actions", CFS + ".context", CFS + ".action_uids", "attr(val(state.actions, winning_event.action_uid), 'flow_scope_count')"],
    loops={"for (key, context_variable) in competing_flow_state.context.items()": dict(
        modifies=[CFS + ".context", "attr(val(state.actions, winning_event.action_uid), 'flow_scope_count')"],
        inv=["is_dict(%s.context)" % CFS, CTX_KEYS, CTX_DONE, CTX_TODO,
             "all(is_obj(val(state.actions, u)) and %s for u in keys(state.actions))" % (ACTION_WF % (("val(state.actions, u)",) * 3))])},
)
