"""C12 (Colang 1.0 part) — "in Colang 1.0 every relative jump and branch offset lands inside the flow".

Contracts (heap mode) on the two post-passes that sit between the element extractor and the interpreter:

  colang/v1_0/lang/coyml_parser.py::_resolve_gotos         every `goto` becomes a relative jump that lands on the position of its
                                                           label (inside the flow), every label becomes a jump to the next element;
                                                           the offsets that were in range before stay in range (closure preserved);
  colang/v1_0/runtime/runtime.py::RuntimeV1_0._load_flow_config
                                                           the flow configuration it stores has closed elements whenever the flow it
                                                           is given has (removing the leading `meta` element keeps every offset
                                                           inside the flow), and every configuration stored earlier stays closed.

`closed(els, lo)`: for every element k and every offset field the interpreter reads (`_next` unless `_absolute`, `_next_else`,
`_next_on_break`, `_next_on_continue`): lo <= k + offset <= llen(els).  (`== len` is "flow finished".)
Not covered here: `_extract_elements` itself (recursive, mutates its input: bounded native check only) and `branch_heads`."""
from pyvc.api import *

CP = "nemoguardrails/colang/v1_0/lang/coyml_parser.py"
RT = "nemoguardrails/colang/v1_0/runtime/runtime.py"
FL = "nemoguardrails/colang/v1_0/runtime/flows.py"
classes({"RuntimeV1_0": []})
dataclass_of("FlowConfig", FL)

opaque("new_uuid", pure=True, result="s", raises=[], note="fresh uid string")


@spec
def off_in(els: V, lo: int, k: int, v: V) -> bool:
    return is_int(v) and lo <= k + num_i(v) and k + num_i(v) <= llen(els)


@spec
def closed(els: V, lo: int) -> bool:
    """every element k of els is a dict with a string `_type` whose relative offsets land in [lo, llen(els)]"""
    return is_list(els) and all(
        is_dict(item(els, k)) and has(item(els, k), "_type") and is_str(item(els, k)["_type"])
        and ((not has(item(els, k), "_next")) or (has(item(els, k), "_absolute") and truthy(item(els, k)["_absolute"]))
             or off_in(els, lo, k, item(els, k)["_next"]))
        and ((not has(item(els, k), "_next_else")) or off_in(els, lo, k, item(els, k)["_next_else"]))
        and ((not has(item(els, k), "_next_on_break")) or off_in(els, lo, k, item(els, k)["_next_on_break"]))
        and ((not has(item(els, k), "_next_on_continue")) or off_in(els, lo, k, item(els, k)["_next_on_continue"]))
        for k in range(llen(els)))


@spec
def label_at(els: V, t: int, name: V) -> bool:
    """position t of els holds a `label` element of that name"""
    return 0 <= t and t < llen(els) and item(els, t)["_type"] == "label" and item(els, t)["name"] == name


@spec
def first_is_meta(els: V) -> bool:
    return llen(els) > 0 and has(item(els, 0), "_type") and item(els, 0)["_type"] == "meta"


# ---------------------------------------------------------------------------------------------------------------------------
# RuntimeV1_0._load_flow_config
# ---------------------------------------------------------------------------------------------------------------------------
# the statement that moves the meta data to the flow and drops the leading `meta` element is verified on its own (block
# contract) and used as a summary when the function is verified: afterwards `elements` is closed from 0
contract(
    RT, "RuntimeV1_0._load_flow_config", prop="C12", summary=True,
    block="if elements and elements[0].get('_type') == 'meta'",
    vars={"elements": "V", "flow": "V"},
    requires=["is_dict(flow)", "closed(elements, 1 if first_is_meta(elements) else 0)", "is_obj(self)",
              "all(item(elements, k) is not flow and item(elements, k) is not self.flow_configs for k in range(llen(elements)))",
              "implies(first_is_meta(elements), is_dict(item(elements, 0)['meta']))"],
    ensures=["closed(elements, 0)",
             "all(item(elements, k) is not flow and item(elements, k) is not self.flow_configs for k in range(llen(elements)))",
             "implies(not old(first_is_meta(elements)), elements is old(elements))",
             "implies(old(first_is_meta(elements)), fresh(elements))"],
    raises={"Exception": "True"},
    assigns=["flow"],
)

NEW_CLOSED = ("all(implies(not old(has(self.flow_configs, f)), is_inst(val(self.flow_configs, f), 'FlowConfig') and "
              "closed(val(self.flow_configs, f).elements, 0)) for f in keys(self.flow_configs))")

contract(
    RT, "RuntimeV1_0._load_flow_config", prop="C12",
    requires=["is_obj(self)", "has(self, 'flow_configs')", "is_dict(self.flow_configs)", "is_dict(flow)", "has(flow, 'elements')",
              "flow is not self.flow_configs",
              # the flow handed in is closed; nothing jumps onto a leading `meta` element (A-META-FIRST, see `assume` below)
              "closed(flow['elements'], 1 if first_is_meta(flow['elements']) else 0)",
              "implies(first_is_meta(flow['elements']), is_dict(item(flow['elements'], 0)['meta']))",
              # no aliasing between the flow dict / the registry and the element dicts
              "all(item(flow['elements'], k) is not flow and item(flow['elements'], k) is not self.flow_configs for k in range(llen(flow['elements'])))"],
    # every configuration this call adds to the registry has closed elements
    ensures=[NEW_CLOSED],
    raises={"Exception": "True"},
    raises_ensures=[NEW_CLOSED],
    assigns=["*"],
    loops={"for element in elements": dict(
        modifies=["val(self.flow_configs, flow_id).trigger_event_types"],
        inv=["is_dict(self.flow_configs)", "has(self.flow_configs, flow_id)", "is_inst(val(self.flow_configs, flow_id), 'FlowConfig')",
             "is_list(val(self.flow_configs, flow_id).trigger_event_types)", "fresh(val(self.flow_configs, flow_id).trigger_event_types)",
             "val(self.flow_configs, flow_id).elements is elements", "not at_entry(has(self.flow_configs, flow_id))",
             "all(implies(not old(has(self.flow_configs, f)), f == flow_id) for f in keys(self.flow_configs))",
             "closed(elements, 0)"])},
)
assume("A-META-FIRST: no compiled element jumps onto a leading `meta` element (the parser inserts `meta` before every statement of the "
       "flow body; loops, labels and branches start after it) - precondition of _load_flow_config, not verified here")


# ---------------------------------------------------------------------------------------------------------------------------
# _resolve_gotos
# ---------------------------------------------------------------------------------------------------------------------------
DISTINCT = "all(all(implies(i != j, item(elements, i) is not item(elements, j)) for j in range(llen(elements))) for i in range(llen(elements)))"
TYPE = "item(elements, k)['_type']"
LANDS = ("all(implies(k < %s and old(item(elements, k)['_type']) == 'goto', "
         "            in_old(label_at, elements, k + num_i(item(elements, k)['_next']), old(item(elements, k)['label']))) for k in range(llen(elements)))")
IDX_OK = ("is_dict(checkpoint_idx)", "fresh(checkpoint_idx)",
          "all(is_int(val(checkpoint_idx, n)) and 0 <= num_i(val(checkpoint_idx, n)) and num_i(val(checkpoint_idx, n)) < llen(elements) "
          "    for n in keys(checkpoint_idx))",
          # the table maps a name to the position of the element that was the label of that name
          "all(in_old(label_at, elements, num_i(val(checkpoint_idx, n)), n) for n in keys(checkpoint_idx))")

contract(
    CP, "_resolve_gotos", prop="C12",
    requires=["closed(elements, 0)", DISTINCT,
              "all(implies(%s == 'label', has(item(elements, k), 'name')) for k in range(llen(elements)))" % TYPE,
              "all(implies(%s == 'goto', has(item(elements, k), 'label')) for k in range(llen(elements)))" % TYPE],
    ensures=["result is elements", "closed(result, 0)",
             # no goto / label is left: both became jumps
             "all(item(result, k)['_type'] != 'goto' and item(result, k)['_type'] != 'label' for k in range(llen(result)))",
             # every former goto lands exactly on the element that was the label of that name
             LANDS % "llen(elements)"],
    raises={"Exception": "True"},
    assigns=["*"],
    loops={
        "for i in range(len(elements))": dict(inv=list(IDX_OK) + [
            "closed(elements, 0)",
            # labels not yet visited are as they were; everything that was not a label keeps its type
            "all(implies(k >= _k and old(%s) == 'label', %s == 'label' and has(item(elements, k), 'name')) for k in range(llen(elements)))" % (TYPE, TYPE),
            "all(implies(old(%s) != 'label', %s is old(%s)) for k in range(llen(elements)))" % (TYPE, TYPE, TYPE),
            "all(implies(k < _k, %s != 'label') for k in range(llen(elements)))" % TYPE,
            "all(implies(k < _k and old(%s) == 'label', %s == 'jump') for k in range(llen(elements)))" % (TYPE, TYPE),
            "all(implies(old(%s) == 'goto', has(item(elements, k), 'label') and item(elements, k)['label'] is old(item(elements, k)['label'])) "
            "    for k in range(llen(elements)))" % TYPE,
            "all(implies(k >= _k and old(%s) == 'label', item(elements, k)['name'] is old(item(elements, k)['name'])) for k in range(llen(elements)))" % TYPE,
        ]),
        "for i in range(len(elements)) #2": dict(inv=list(IDX_OK) + [
            "closed(elements, 0)",
            "all(%s != 'label' for k in range(llen(elements)))" % TYPE,
            "all(implies(k >= _k and old(%s) == 'goto', %s == 'goto' and has(item(elements, k), 'label')) for k in range(llen(elements)))" % (TYPE, TYPE),
            "all(implies(old(%s) != 'goto', %s != 'goto') for k in range(llen(elements)))" % (TYPE, TYPE),
            "all(implies(k < _k, %s != 'goto') for k in range(llen(elements)))" % TYPE,
            LANDS % "_k",
            # gotos not yet visited still carry their label name
            "all(implies(k >= _k and old(%s) == 'goto', item(elements, k)['label'] is old(item(elements, k)['label'])) for k in range(llen(elements)))" % TYPE,
        ]),
    },
)
