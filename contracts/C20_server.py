"""C20 — the server loads configurations only from inside its root.

Contract on nemoguardrails/server/api.py::_get_rails with a ghost trace `loaded` of every path handed to
RailsConfig.from_path.  `inside` is the statement's confinement predicate (lexical)."""
from pyvc.api import *

API = "nemoguardrails/server/api.py"
classes({"LLMRails": [], "RailsConfig": [], "GuardrailsConfigurationError": ["Exception"]})


@spec(heap=False, hide=True)
def inside(base: str, p: str) -> bool:
    return (p == base or startswith(p, base + "/")) and not str_contains(p + "/", "/../")


RX = r"[\\/]|(\.\.)"   # the literal the code passes to re.search (checked against the source by the lemma-pre obligation)


@lemma(requires=["not re_search_lit(RX, c)"],
       ensures=["not str_contains(c, '/')", "not str_contains(c, '..')"])
def rx_excludes(c: str):
    """a string the separator/dot-dot regex does not find in contains neither '/' nor '..'  (z3's regex solver)"""


@lemma(requires=["norm_abs(B)", "B != '/'", "not str_contains(c, '/')", "not str_contains(c, '..')", "normpath_axiom(B, c, r)"],
       ensures=["inside(B, r)"])
def inside_step(B: str, c: str, r: str):
    """a single component without separators or '..' below a normalised absolute root stays inside the root (cvc5)"""


opaque("_generate_cache_key", pure=True, result="s", raises=[],
       note="cache key of the id list: arbitrary string, no effect")
opaque("from_path", pure=True, log="loaded", raises=["Exception"], result_class="RailsConfig",
       note="RailsConfig.from_path: arbitrary RailsConfig or any Exception; assumed not to modify the server globals (app, caches); "
            "its argument is recorded in the ghost trace `loaded`")
opaque("LLMRails", pure=True, raises=["Exception"], result_class="LLMRails",
       note="LLMRails constructor: arbitrary instance or any Exception; assumed not to modify the server globals")

CONFINED = "all(inside(abspath_of(old(app.rails_config_path)), p) for p in loaded)"

contract(
    API, "_get_rails", prop="C20",
    globals={"llm_rails_instances": "V", "app": "V", "llm_rails_events_history_cache": "V"},
    ghost_lists=["loaded"],
    requires=["is_list(config_ids)", "all(is_str(x) for x in config_ids)",
              "is_dict(llm_rails_instances)", "is_dict(llm_rails_events_history_cache)",
              "is_obj(app)", "is_str(app.rails_config_path)", "abspath_of(app.rails_config_path) != '/'"],
    ensures=[CONFINED],
    raises={"Exception": "True"},
    raises_ensures=[CONFINED],
    uses=[dict(after="if os.path.commonprefix([full_path, base_path]) != base_path", lemma="rx_excludes", args=["config_id"]),
          dict(after="if os.path.commonprefix([full_path, base_path]) != base_path", lemma="inside_step",
               args=["base_path", "config_id", "full_path"])],
    loops={"for config_id in config_ids": dict(inv=[
        "all(inside(abspath_of(app.rails_config_path), p) for p in loaded)",
        "is_obj(app)", "is_str(app.rails_config_path)",
        "app.rails_config_path == old(app.rails_config_path)",
        "is_none(full_llm_rails_config) or is_obj(full_llm_rails_config)",
    ])},
)


# =============================================================================================
# native side (bounded stand-in + replay)
# =============================================================================================
def _native_inside(base, p):
    return (p == base or p.startswith(base + "/")) and "/../" not in p + "/"


def native_checks(rng, tier):
    """drive the real _get_rails with RailsConfig.from_path / LLMRails replaced by recorders"""
    import os
    import tempfile
    from nemoguardrails.server import api
    corpus = ["", ".", "..", "a", "abc", "a.b", "a..b", "../x", "..\\x", "a/b", "/etc", "/", "//", "a/../b", "%2e%2e", "..%2f", "cfg\x00", "~",
              "a b", "-", "with-dash", "x" * 40, "./a", "a/.", ".hidden", "...", "....", "a\\b", "c:\\x", "\u2025", "\uff0e\uff0e", "%2e%2e/x",
              "a/", "/a", "a//b", "..a", "a..", "sub/../../x"]
    failing = []
    n = 0
    seen = set()
    with tempfile.TemporaryDirectory() as root:
        base = os.path.abspath(os.path.join(root, "configs"))
        os.makedirs(os.path.join(base, "a"))
        os.makedirs(os.path.join(root, "configs2", "x"))
        loaded = []

        class FakeCfg:
            def __iadd__(self, o):
                return self

            def __add__(self, o):
                return self

        def fake_from_path(p, *a, **k):
            loaded.append(p)
            return FakeCfg()

        class FakeRails:
            def __init__(self, *a, **k):
                self.events_history_cache = {}

        saved = (api.RailsConfig.from_path, api.LLMRails, api.app.rails_config_path, getattr(api.app, "single_config_mode", False))
        api.RailsConfig.from_path = staticmethod(fake_from_path)
        api.LLMRails = FakeRails
        try:
            corpus = corpus + [base + "2/x", base + "2", base + "/../configs2/x", base, base + "/a", os.path.join(root, "configs2", "x"),
                               "/" + base.lstrip("/") + "2/x",
                               # traversals that end in a SIBLING of the root whose path starts with the root's path (a character-wise
                               # common-prefix test accepts them), with the separator / dot-dot not at the start of the id
                               "a/../../configs2/x", "x/../../configs2", "./../configs2/x", "a/../../configs2", "a/b/../../../configs2/x",
                               "a\\..\\..\\configs2", "a/./../../configs2/x", "a/..", "a/../..", "a/../../configs",
                               # percent-encoded traversals (an id must never be URL-decoded on its way to the path)
                               "%2e%2e%2fconfigs2%2fx", "%2e%2e%2fconfigs2", "..%2fconfigs2%2fx", "%2e%2e/configs2/x", "a%2f..%2f..%2fconfigs2%2fx",
                               "%2E%2E%2Fconfigs2%2Fx"]
            ids_lists = [[c] for c in corpus] + [["a", c] for c in corpus] + [[c, "a"] for c in corpus[:12]]
            if tier == "thorough":
                alphabet = ["a", ".", "/", "\\", "..", "%", "2e", " "]
                for _ in range(3000):
                    ids_lists.append(["".join(rng.choice(alphabet) for _ in range(rng.randint(0, 6)))])
            for rcp in (base, base + "/", os.path.join(root, "configs", "..", "configs")):
                api.app.rails_config_path = rcp
                api.app.single_config_mode = False
                for ids in ids_lists:
                    api.llm_rails_instances.clear()
                    del loaded[:]
                    n += 1
                    seen.add((rcp, tuple(ids)))
                    try:
                        api._get_rails(list(ids))
                        outcome = "returned"
                    except ValueError as ex:
                        outcome = "ValueError"
                    except Exception as ex:
                        outcome = "raised %s" % type(ex).__name__
                        if len(failing) < 5:
                            failing.append(dict(kind="raises-only", function="_get_rails", file=API, clause="raises only ValueError here",
                                                inputs=repr(dict(config_ids=ids, rails_config_path=rcp)), outcome=outcome, property_id="C20"))
                    bad = [p for p in loaded if not _native_inside(base, p)]
                    if bad and len(failing) < 5:
                        failing.append(dict(kind="post", function="_get_rails", file=API, clause=CONFINED,
                                            inputs=repr(dict(config_ids=ids, rails_config_path=rcp)),
                                            outcome="%s; loaded outside the root: %r" % (outcome, bad), property_id="C20"))
        finally:
            api.RailsConfig.from_path, api.LLMRails, api.app.rails_config_path, api.app.single_config_mode = saved
            api.llm_rails_instances.clear()
    yield dict(function="_get_rails", evaluations=n, distinct=len(seen), failures=len(failing), failing=failing,
               bound="config id lists of length 1-2 over a %d-string hostile corpus (+3000 random strings over a separator/dot alphabet in "
                     "thorough tier) x 3 spellings of the root; from_path / LLMRails replaced by recorders" % len(corpus))


def _thread_checks(rng, tier):
    """chat_completion with a thread id: the messages used for a turn are exactly the stored thread followed by the new
    messages, and what is stored afterwards is that list plus the reply; other threads are untouched"""
    import asyncio
    import json
    from nemoguardrails.server import api
    failing = []
    n = 0
    seen = set()

    class Store:
        def __init__(self):
            self.d = {}

        async def get(self, k):
            return self.d.get(k)

        async def set(self, k, v):
            self.d[k] = v

    class Rails:
        class config:
            streaming_supported = False
        main_llm_supports_streaming = False

        def __init__(self, replies):
            self.replies = list(replies)
            self.calls = []

        async def generate_async(self, messages=None, options=None, state=None, **kw):
            self.calls.append(json.loads(json.dumps(messages)))
            return {"role": "assistant", "content": self.replies.pop(0)}

    class Req:
        headers = {}

    saved = (api.datastore, dict(api.llm_rails_instances), api._get_rails)
    try:
        reply_sets = [["r1", "r2", "r3", "r4", "r5", "r6"], ["", "r2", "", "r4", "r5", ""], ["r:1", "", "x", "", "", "y"]]
        tids = ["thread-aaaaaaaaaaaaaaaa", "thread-bbbbbbbbbbbbbbbb"]
        orders = [[0, 0, 1, 0, 1, 1], [0, 1, 0, 1, 0, 1], [1, 1, 1, 0, 0, 0]]
        for replies in reply_sets:
            for order in orders:
                for with_ctx in (False, True):
                    store = Store()
                    rails = Rails(replies)
                    api.datastore = store
                    api._get_rails = lambda ids, _r=rails: _r
                    model = {}
                    for turn, ti in enumerate(order):
                        tid = tids[ti]
                        new = [{"role": "user", "content": "u%d" % turn}]
                        body = api.RequestBody(config_id="c", thread_id=tid, messages=[dict(m) for m in new],
                                               context={"k": turn} if with_ctx else None)
                        n += 1
                        seen.add((tuple(replies), tuple(order), with_ctx, turn))
                        before = dict(store.d)
                        try:
                            res = asyncio.run(api.chat_completion(body, Req()))
                        except Exception as ex:
                            res = "raised %s" % type(ex).__name__
                        key = "thread-" + tid
                        ctx = [{"role": "context", "content": {"k": turn}}] if with_ctx else []
                        expected_used = model.get(key, []) + ctx + new
                        reply = {"role": "assistant", "content": replies[turn]}
                        bad = None
                        if not rails.calls or rails.calls[-1] != expected_used:
                            bad = "messages used for the turn %r != stored thread + new messages %r" % (rails.calls[-1:] , expected_used)
                        model[key] = expected_used + [reply]
                        got = {k: json.loads(v) for k, v in store.d.items()}
                        if bad is None and got != model:
                            bad = "stored threads %r != expected %r" % (got, model)
                        if bad and len(failing) < 5:
                            failing.append(dict(kind="post", function="chat_completion", file=API, property_id="C20",
                                                clause="thread store == previous thread ++ new messages ++ [reply]; other threads unchanged",
                                                inputs=repr(dict(replies=replies, thread_order=order, with_context=with_ctx, turn=turn)),
                                                outcome=bad[:400]))
                            break
    finally:
        api.datastore, _, api._get_rails = saved
    yield dict(function="chat_completion", evaluations=n, distinct=len(seen), failures=len(failing), failing=failing,
               bound="6-turn request sequences over 2 thread ids (3 interleavings) x 3 reply scripts (incl. empty replies) x with/without context; "
                     "datastore, rails instance and request replaced by recorders; non-streaming")


_native_get_rails = native_checks


def native_checks(rng, tier):
    for rec in _native_get_rails(rng, tier):
        yield rec
    for rec in _thread_checks(rng, tier):
        yield rec
