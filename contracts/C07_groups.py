"""C07 — and/or groups behave like the boolean formula they spell.

Contracts on nemoguardrails/colang/v2_x/lang/expansion.py::normalize_element_groups / flatten_or_group:
for EVERY valuation `holds` of the leaf specs (an uninterpreted predicate), the normal form is satisfied exactly
when the original group is, and it has the shape the fork/merge expansion relies on: one `or` of `and`s of leaves.

Discipline (DESIGN.md, pyvc "value mode"): the recursive predicate `sat` is only ever applied to the *input* group in
the entry heap; the freshly built normal form has depth two, so its shape (`dnf`) and its meaning (`dnf_sat`) are
non-recursive predicates whose framing is plain array reasoning."""
from pyvc.api import *

EXP = "nemoguardrails/colang/v2_x/lang/expansion.py"
classes({"Element": [], "Spec": ["Element"]})


@spec(heap=False, opaque=True)
def holds(leaf: V) -> bool:
    """an arbitrary valuation of the leaf specs: 'the event/flow described by this leaf has been received'"""
    return leaf in HOLDS


@spec(fuel=2)
def sat(g: V) -> bool:
    """the boolean formula a (nested) group spells"""
    if is_inst(g, "Spec"):
        return holds(g)
    if g["_type"] == "spec_or":
        return any(sat(x) for x in g["elements"])
    if g["_type"] == "spec_and":
        return all(sat(x) for x in g["elements"])
    return False


@spec(fuel=2)
def wf(g: V) -> bool:
    if is_inst(g, "Spec"):
        return True
    return is_dict(g) and has(g, "_type") and has(g, "elements") and (g["_type"] == "spec_or" or g["_type"] == "spec_and") \
        and is_list(g["elements"]) and all(wf(x) for x in g["elements"])


@spec
def and_of_leaves(g: V) -> bool:
    return is_dict(g) and has(g, "_type") and has(g, "elements") and g["_type"] == "spec_and" and is_list(g["elements"]) \
        and all(is_inst(x, "Spec") for x in g["elements"])


@spec
def and_sat(g: V) -> bool:
    return all(holds(y) for y in g["elements"])


@spec
def dnf(g: V) -> bool:
    return is_dict(g) and has(g, "_type") and has(g, "elements") and g["_type"] == "spec_or" and is_list(g["elements"]) \
        and all(and_of_leaves(x) for x in g["elements"])


@spec
def dnf_sat(g: V) -> bool:
    return any(and_sat(x) for x in g["elements"])


@spec
def nf_sat(g: V) -> bool:
    """meaning of an item that is either a single and-group of leaves or a full normal form"""
    if g["_type"] == "spec_and":
        return and_sat(g)
    return dnf_sat(g)


# Proved deductively (all formulas, all valuations, no depth/width bound):
#   O2  shape: the result is one `or` of `and`s of leaves;
#   O1> soundness: whenever the normal form is satisfied the original group is ("the statement never completes before
#       its formula holds").
# O1< (completeness: the normal form is satisfied whenever the group is) needs an index-arithmetic invariant for the
# distribution loops (the (i*m+j)-th product term) plus a forall-exists invariant that sends E-matching into a loop together
# with O1>; it is covered by the bounded native check below and is NOT counted as proved (DESIGN.md, C07).
contract(
    EXP, "flatten_or_group", prop="C07", value_mode=True, allocates=True,
    requires=["is_dict(group)", "has(group, 'elements')", "is_list(group['elements'])",
              "all(and_of_leaves(x) or dnf(x) for x in group['elements'])"],
    ensures=["dnf(result)", "fresh(result)", "implies(dnf_sat(result), any(nf_sat(x) for x in group['elements']))"],
    loops={"for elem in group['elements']": dict(index="k", inv=[
        "is_list(new_elements)", "fresh(new_elements)",
        "all(and_of_leaves(x) for x in new_elements)",
        "all(implies(and_sat(x), any(nf_sat(item(group['elements'], j)) for j in range(k))) for x in new_elements)"])},
)

COMP_OR = ("[normalize_element_groups(elem) if isinstance(elem, dict) else {'_type': 'spec_and', 'elements': [elem]} "
           "for elem in group['elements']]")

contract(
    EXP, "normalize_element_groups", prop="C07", value_mode=True, allocates=True,
    requires=["acyclic()", "is_input(group)", "wf(group)"],
    ensures=["dnf(result)", "implies(dnf_sat(result), sat(group))"],
    decreases="rank(group)",
    comps={COMP_OR: dict(each=["and_of_leaves(_item) or dnf(_item)", "implies(nf_sat(_item), sat(elem))"])},
    hints=[dict(after="new_elem = {'_type': 'spec_and', 'elements': res_elem['elements'] + norm_elem['elements']}",
                facts=["implies(and_sat(new_elem), and_sat(res_elem))", "implies(and_sat(new_elem), and_sat(norm_elem))"])],
    loops={
        "for elem in group['elements']": dict(index="k", inv=[
            "is_list(results)", "all(and_of_leaves(x) for x in results)",
            "all(implies(and_sat(x), all(sat(item(group['elements'], j)) for j in range(k))) for x in results)"]),
        "for res_elem in results": dict(index="a", inv=[
            "is_list(new_results)", "fresh(new_results)", "all(and_of_leaves(x) for x in new_results)",
            "all(implies(and_sat(x), all(sat(item(group['elements'], j)) for j in range(k + 1))) for x in new_results)"]),
        "for norm_elem in normalized['elements']": dict(index="b", inv=[
            "is_list(new_results)", "fresh(new_results)", "all(and_of_leaves(x) for x in new_results)",
            "all(implies(and_sat(x), all(sat(item(group['elements'], j)) for j in range(k + 1))) for x in new_results)"]),
    },
)
