"""C07 — and/or groups behave like the boolean formula they spell.

Contracts on nemoguardrails/colang/v2_x/lang/expansion.py::normalize_element_groups / flatten_or_group:
for EVERY valuation `holds` of the leaf specs (an uninterpreted predicate), the normal form is satisfied exactly
when the original group is, and it has the shape the fork/merge expansion relies on: one `or` of `and`s of leaves.

Discipline (DESIGN.md, pyvc "value mode"): the recursive predicate `sat` is only ever applied to the *input* group in
the entry heap; the freshly built normal form has depth two, so its shape (`dnf`) and its meaning (`dnf_sat`) are
non-recursive predicates whose framing is plain array reasoning."""
from pyvc.api import *

EXP = "nemoguardrails/colang/v2_x/lang/expansion.py"
classes({"Element": [], "Spec": ["Element"]})


@spec(heap=False, opaque=True)
def holds(leaf: V) -> bool:
    """an arbitrary valuation of the leaf specs: 'the event/flow described by this leaf has been received'"""
    return leaf in HOLDS


@spec(fuel=2)
def sat(g: V) -> bool:
    """the boolean formula a (nested) group spells"""
    if is_inst(g, "Spec"):
        return holds(g)
    if g["_type"] == "spec_or":
        return any(sat(x) for x in g["elements"])
    if g["_type"] == "spec_and":
        return all(sat(x) for x in g["elements"])
    return False


@spec(fuel=2)
def wf(g: V) -> bool:
    if is_inst(g, "Spec"):
        return True
    return is_dict(g) and has(g, "_type") and has(g, "elements") and (g["_type"] == "spec_or" or g["_type"] == "spec_and") \
        and is_list(g["elements"]) and all(wf(x) for x in g["elements"])


@spec
def and_of_leaves(g: V) -> bool:
    return is_dict(g) and has(g, "_type") and has(g, "elements") and g["_type"] == "spec_and" and is_list(g["elements"]) \
        and all(is_inst(x, "Spec") for x in g["elements"])


@spec
def and_sat(g: V) -> bool:
    return all(holds(y) for y in g["elements"])


@spec
def dnf(g: V) -> bool:
    return is_dict(g) and has(g, "_type") and has(g, "elements") and g["_type"] == "spec_or" and is_list(g["elements"]) \
        and all(and_of_leaves(x) for x in g["elements"])


@spec
def dnf_sat(g: V) -> bool:
    return any(and_sat(x) for x in g["elements"])


@spec
def nf_sat(g: V) -> bool:
    """meaning of an item that is either a single and-group of leaves or a full normal form"""
    if g["_type"] == "spec_and":
        return and_sat(g)
    return dnf_sat(g)


# Proved deductively (all formulas, all valuations, no depth/width bound):
#   O2  shape: the result is one `or` of `and`s of leaves;
#   O1> soundness: whenever the normal form is satisfied the original group is ("the statement never completes before
#       its formula holds").
# O1< (completeness: the normal form is satisfied whenever the group is) needs an index-arithmetic invariant for the
# distribution loops (the (i*m+j)-th product term) plus a forall-exists invariant that sends E-matching into a loop together
# with O1>; it is covered by the bounded native check below and is NOT counted as proved (DESIGN.md, C07).
contract(
    EXP, "flatten_or_group", prop="C07", value_mode=True, allocates=True,
    requires=["is_dict(group)", "has(group, 'elements')", "is_list(group['elements'])",
              "all(and_of_leaves(x) or dnf(x) for x in group['elements'])"],
    ensures=["dnf(result)", "fresh(result)", "implies(dnf_sat(result), any(nf_sat(x) for x in group['elements']))"],
    loops={"for elem in group['elements']": dict(index="k", inv=[
        "is_list(new_elements)", "fresh(new_elements)",
        "all(and_of_leaves(x) for x in new_elements)",
        "all(implies(and_sat(x), any(nf_sat(item(group['elements'], j)) for j in range(k))) for x in new_elements)"])},
)

COMP_OR = ("[normalize_element_groups(elem) if isinstance(elem, dict) else {'_type': 'spec_and', 'elements': [elem]} "
           "for elem in group['elements']]")

contract(
    EXP, "normalize_element_groups", prop="C07", value_mode=True, allocates=True,
    requires=["acyclic()", "is_input(group)", "wf(group)"],
    ensures=["dnf(result)", "implies(dnf_sat(result), sat(group))"],
    decreases="rank(group)",
    comps={COMP_OR: dict(each=["and_of_leaves(_item) or dnf(_item)", "implies(nf_sat(_item), sat(elem))"])},
    hints=[dict(after="new_elem = {'_type': 'spec_and', 'elements': res_elem['elements'] + norm_elem['elements']}",
                facts=["implies(and_sat(new_elem), and_sat(res_elem))", "implies(and_sat(new_elem), and_sat(norm_elem))"])],
    loops={
        "for elem in group['elements']": dict(index="k", inv=[
            "is_list(results)", "all(and_of_leaves(x) for x in results)",
            "all(implies(and_sat(x), all(sat(item(group['elements'], j)) for j in range(k))) for x in results)"]),
        "for res_elem in results": dict(index="a", inv=[
            "is_list(new_results)", "fresh(new_results)", "all(and_of_leaves(x) for x in new_results)",
            "all(implies(and_sat(x), all(sat(item(group['elements'], j)) for j in range(k + 1))) for x in new_results)"]),
        "for norm_elem in normalized['elements']": dict(index="b", inv=[
            "is_list(new_results)", "fresh(new_results)", "all(and_of_leaves(x) for x in new_results)",
            "all(implies(and_sat(x), all(sat(item(group['elements'], j)) for j in range(k + 1))) for x in new_results)"]),
    },
)


# =============================================================================================
# native side (bounded stand-in + replay)
# =============================================================================================
def _formulas(leaves, max_leaves, max_depth):
    """all and/or trees with up to max_leaves leaves (each leaf used at most once), alternating operators, depth <= max_depth"""
    import itertools
    out = []

    def build(avail, depth, op):
        # a node with operator `op` over 2..n children; children are leaves or sub-nodes of the other operator
        res = []
        items = list(avail)
        for n in range(2, len(items) + 1):
            for combo in itertools.combinations(items, n):
                # partition `combo`: each element is a leaf child, or (at most one group of >=2) goes into a sub-node
                res.append((op, [("leaf", x) for x in combo]))
                if depth > 1 and n >= 3:
                    for m in range(2, n):
                        for subset in itertools.combinations(combo, m):
                            rest = [x for x in combo if x not in subset]
                            sub = ("or" if op == "and" else "and", [("leaf", x) for x in subset])
                            res.append((op, [("leaf", x) for x in rest] + [sub]))
        return res

    for op in ("and", "or"):
        out += build(leaves[:max_leaves], max_depth, op)
    return out


def _fmt(f):
    if f[0] == "leaf":
        return f[1]
    return "(" + (" %s " % f[0]).join(_fmt(c) for c in f[1]) + ")"


def _ev(f, seen):
    if f[0] == "leaf":
        return f[1] in seen
    vals = [_ev(c, seen) for c in f[1]]
    return all(vals) if f[0] == "and" else any(vals)


def native_checks(rng, tier):
    import itertools
    from native import v2
    from nemoguardrails.colang.v2_x.lang.colang_ast import Spec
    from nemoguardrails.colang.v2_x.lang.expansion import normalize_element_groups
    failing = []
    # ---- (1) normalize_element_groups against the formula, every valuation (O1 both directions + O2)
    names = ["a", "b", "c", "d", "e"]
    n1 = 0
    seen1 = set()

    def to_group(f, table):
        if f[0] == "leaf":
            return table[f[1]]
        return {"_type": "spec_" + f[0], "elements": [to_group(c, table) for c in f[1]]}

    forms = _formulas(names, 5 if tier == "thorough" else 4, 2)
    for f in forms:
        table = {n: Spec(name=n.upper(), arguments={}) for n in names}
        g = to_group(f, table)
        try:
            nf = normalize_element_groups(g)
        except Exception as ex:
            nf = None
            bad = "raised %s" % type(ex).__name__
        n1 += 1
        seen1.add(_fmt(f))
        if nf is not None:
            bad = None
            if nf.get("_type") != "spec_or" or not all(isinstance(a, dict) and a.get("_type") == "spec_and" and
                                                      all(isinstance(l, Spec) for l in a["elements"]) for a in nf["elements"]):
                bad = "result is not an or of ands of leaves: %r" % (nf,)
            else:
                used = sorted({x for x in names if any(table[x] is l for a in nf["elements"] for l in a["elements"])})
                for r in range(len(names) + 1):
                    for true_set in itertools.combinations(names, r):
                        want = _ev(f, set(true_set))
                        got = any(all(any(table[x] is l for x in true_set) for l in a["elements"]) for a in nf["elements"])
                        if want != got:
                            bad = "valuation %s: formula %s, normal form %s" % (sorted(true_set), want, got)
                            break
                    if bad:
                        break
        if bad and len(failing) < 6:
            failing.append(dict(kind="post", function="normalize_element_groups", file=EXP, property_id="C07",
                                clause="dnf(result) and (dnf_sat(result) == sat(group)) for every valuation",
                                inputs=_fmt(f), outcome=bad))
    yield dict(function="normalize_element_groups", evaluations=n1, distinct=len(seen1), failures=len([x for x in failing if x["function"] == "normalize_element_groups"]),
               failing=[x for x in failing if x["function"] == "normalize_element_groups"],
               bound="all and/or formulas of nesting depth <= 2 over <= %d distinct leaves, all 2^5 valuations each" % (5 if tier == "thorough" else 4))

    # ---- (2) the interpreter: `match <group>` completes at exactly the first moment the received events satisfy it
    leaves = {"A": "A()", "B": "B()", "C": "C()", "D": "D()", "E1": "E(x=1)", "E2": "E(x=2)"}
    events = {"A": {"type": "A"}, "B": {"type": "B"}, "C": {"type": "C"}, "D": {"type": "D"}, "E1": {"type": "E", "x": 1},
              "E2": {"type": "E", "x": 2}, "X": {"type": "X"}}

    def colang(f):
        if f[0] == "leaf":
            return leaves[f[1]]
        return "(" + (" %s " % f[0]).join(colang(c) for c in f[1]) + ")"

    fails2 = []
    n2 = 0
    seen2 = set()
    pools = [["A", "B", "C", "D"], ["E1", "E2", "A", "B"]]
    for pool in pools:
        forms2 = _formulas(pool, 4, 2)
        if tier != "thorough":
            forms2 = [f for i, f in enumerate(forms2) if i % 3 == 0]
        for f in forms2:
            used = sorted({x for x in pool if x in _fmt(f)})
            src = "flow main\n  match %s\n  start UtteranceBotAction(script=\"done\")\n  match Never()\n" % colang(f)[1:-1]
            alphabet = used + ["X"]
            L = 4 if tier == "thorough" else 3
            seqs = list(itertools.product(alphabet, repeat=L))
            if tier != "thorough" and len(seqs) > 40:
                seqs = rng.sample(seqs, 40)
            for seq in seqs:
                n2 += 1
                seen2.add((_fmt(f), seq))
                try:
                    st, out = v2.start_main(src)
                    got = None
                    for i, e in enumerate(seq):
                        st, out = v2.step(st, dict(events[e]))
                        if any(o.get("type") == "StartUtteranceBotAction" for o in out):
                            got = i
                            break
                except Exception as ex:
                    got = "raised %s" % type(ex).__name__
                want = None
                recv = set()
                for i, e in enumerate(seq):
                    recv.add(e)
                    if _ev(f, recv):
                        want = i
                        break
                if got != want and len(fails2) < 5:
                    fails2.append(dict(kind="post", function="match <group> (run_to_completion)", file="nemoguardrails/colang/v2_x/runtime/statemachine.py",
                                       property_id="C07", clause="completes at exactly the first event after which the formula holds",
                                       inputs="match %s ; events %s" % (colang(f)[1:-1], list(seq)),
                                       outcome="completed at index %r, expected %r" % (got, want)))
    yield dict(function="match <group> via run_to_completion", evaluations=n2, distinct=len(seen2), failures=len(fails2), failing=fails2,
               bound="and/or formulas (depth <= 2, <= 4 leaves) over {A,B,C,D} and {E(x=1),E(x=2),A,B}; event sequences of length %d over the "
                     "formula's events plus an irrelevant X (sampled: 40 per formula in quick tier, exhaustive in thorough)" % (4 if tier == "thorough" else 3))


# =============================================================================================================================
# (3) `await` / `when` on groups of FLOWS: the formula over the flows' Finished events, with members that fail and with idle time
# =============================================================================================================================
_native_checks_events = native_checks


def _flow_group_checks(rng, tier):
    import itertools
    import datetime as dtm
    from native import v2
    from nemoguardrails.colang.v2_x.runtime import flows as fl
    from nemoguardrails.colang.v2_x.runtime import statemachine as sm
    SM_FILE = "nemoguardrails/colang/v2_x/runtime/statemachine.py"
    fails = []
    n = 0
    seen = set()
    members = ["fa", "fb", "fc"]
    member_src = "".join("flow %s\n  when E%s()\n    return\n  or when K%s()\n    abort\n\n" % (m, m[1], m[1]) for m in members)

    def colang(f):
        if f[0] == "leaf":
            return f[1]
        return "(" + (" %s " % f[0]).join(colang(c) for c in f[1]) + ")"

    # simulated idle time (the clean-up of long-finished flow instances must not change the outcome)
    real = dtm.datetime
    box = dict(offset=dtm.timedelta(0), ticks=0, t0=real.now())

    class IdleClock(real):
        @classmethod
        def now(cls, tz=None):
            box["ticks"] += 1
            return box["t0"] + box["offset"] + dtm.timedelta(microseconds=box["ticks"])

    saved = (sm.datetime, fl.datetime)
    sm.datetime = IdleClock
    fl.datetime = IdleClock
    try:
        forms = _formulas(members, 3, 2)
        if tier != "thorough":
            forms = [f for i, f in enumerate(forms) if i % 2 == 0]
        # groups nested under the SAME operator: as written they have fewer operands than their normal form has alternatives
        lf = lambda m_: ("leaf", m_)
        forms = list(forms) + [("or", [lf("fa"), ("or", [lf("fb"), lf("fc")])]), ("or", [("or", [lf("fa"), lf("fb")]), lf("fc")]),
                               ("and", [lf("fa"), ("and", [lf("fb"), lf("fc")])])]
        for f in forms:
            used = sorted({m for m in members if m in _fmt(f)})
            if len(used) < 2:
                continue
            body = colang(f)[1:-1]
            for form in ("await", "when"):
                if form == "await":
                    src = member_src + "flow main\n  match Go()\n  await %s\n  start UtteranceBotAction(script=\"done\")\n  match Never()\n" % body
                else:
                    src = member_src + ("flow main\n  match Go()\n  when %s\n    start UtteranceBotAction(script=\"done\")\n  else\n"
                                        "    start UtteranceBotAction(script=\"else\")\n  match Never()\n" % body)
                alphabet = ["E" + m[1] for m in used] + ["K" + m[1] for m in used] + ["X"]
                L = 3 if tier != "thorough" else 4
                seqs = list(itertools.product(alphabet, repeat=L))
                if len(seqs) > (24 if tier != "thorough" else 200):
                    seqs = rng.sample(seqs, 24 if tier != "thorough" else 200)
                # directed: every member finishes or fails, in every order (the barrier that ends an `await` whose alternatives failed
                # must count the alternatives of the normal form, not the operands as written)
                directed = []
                for order in itertools.permutations(used):
                    for fate in itertools.product("EK", repeat=len(used)):
                        sq = tuple(fate[i] + order[i][1] for i in range(len(used)))
                        sq = (sq + ("X",) * L)[:L]
                        if sq not in directed:
                            directed.append(sq)
                if tier != "thorough" and len(directed) > 16 and f in forms[:-3]:
                    directed = rng.sample(directed, 16)
                seqs = list(dict.fromkeys(list(seqs) + directed))
                for seq in seqs:
                    for idle_after in (None, 0) if tier != "thorough" else (None, 0, 1):
                        n += 1
                        seen.add((form, _fmt(f), seq, idle_after))
                        box["offset"] = dtm.timedelta(0)
                        got = None
                        try:
                            st, out = v2.start_main(src)
                            st, out = v2.step(st, {"type": "Go"})
                            for i, e in enumerate(seq):
                                st, out = v2.step(st, {"type": e})
                                if any(o.get("type") == "StartUtteranceBotAction" and o.get("script") == "done" for o in out):
                                    got = i
                                    break
                                if idle_after == i:
                                    box["offset"] += dtm.timedelta(seconds=6)
                        except Exception as ex:
                            got = "raised %s: %s" % (type(ex).__name__, str(ex)[:80])
                        finished, dead = set(), set()
                        want = None
                        for i, e in enumerate(seq):
                            m = "f" + e[1] if e != "X" else None
                            if m and m not in finished and m not in dead:
                                (finished if e[0] == "E" else dead).add(m)
                            if _ev(f, finished):
                                want = i
                                break
                        if got != want and len(fails) < 5:
                            fails.append(dict(kind="post", function="%s <group of flows> (run_to_completion)" % form, file=SM_FILE, property_id="C07",
                                              clause="`await` / `when` on a group of flows completes at exactly the first moment the set of flows that "
                                                     "FINISHED satisfies the formula (members that failed never count; idle time between events does "
                                                     "not matter)",
                                              inputs="%s %s ; events %s%s" % (form, body, list(seq), "" if idle_after is None else
                                                                               " ; 6 s idle after event #%d" % idle_after),
                                              outcome="completed at index %r, expected %r" % (got, want)))
    finally:
        sm.datetime, fl.datetime = saved
    yield dict(function="await / when <group of flows> via run_to_completion", evaluations=n, distinct=len(seen), failures=len(fails), failing=fails,
               bound="and/or formulas (depth <= 2) over 3 member flows that finish on E<x> and fail on K<x>; `await` and `when .. else`; event "
                     "sequences of length %d over finish / fail / irrelevant events (sampled), each also with 6 s of simulated idle time after an "
                     "event" % (3 if tier != "thorough" else 4))


def native_checks(rng, tier):
    for rec in _native_checks_events(rng, tier):
        yield rec
    for rec in _flow_group_checks(rng, tier):
        yield rec
