"""C07 — and/or groups behave like the boolean formula they spell.

Contracts on nemoguardrails/colang/v2_x/lang/expansion.py::normalize_element_groups / flatten_or_group:
for EVERY valuation `holds` of the leaf specs (an uninterpreted predicate), the normal form is satisfied exactly
when the original group is, and it has the shape the fork/merge expansion relies on: one `or` of `and`s of leaves."""
from pyvc.api import *

EXP = "nemoguardrails/colang/v2_x/lang/expansion.py"
classes({"Element": [], "Spec": ["Element"]})


@spec(heap=False, opaque=True)
def holds(leaf: V) -> bool:
    """an arbitrary valuation of the leaf specs: 'the event/flow described by this leaf has been received'"""
    return leaf in HOLDS


@spec
def sat(g: V) -> bool:
    if is_inst(g, "Spec"):
        return holds(g)
    if g["_type"] == "spec_or":
        return any(sat(x) for x in g["elements"])
    if g["_type"] == "spec_and":
        return all(sat(x) for x in g["elements"])
    return False


@spec
def any_sat(xs: V) -> bool:
    return any(sat(x) for x in xs)


@spec
def any_sat_upto(xs: V, k: int) -> bool:
    return any(sat(xs[j]) for j in range(k))


@spec
def all_sat_upto(xs: V, k: int) -> bool:
    return all(sat(xs[j]) for j in range(k))


@spec
def wf(g: V) -> bool:
    if is_inst(g, "Spec"):
        return True
    return is_dict(g) and has(g, "_type") and has(g, "elements") and (g["_type"] == "spec_or" or g["_type"] == "spec_and") \
        and is_list(g["elements"]) and all(wf(x) for x in g["elements"])


@spec
def and_of_leaves(g: V) -> bool:
    return is_dict(g) and has(g, "_type") and has(g, "elements") and g["_type"] == "spec_and" and is_list(g["elements"]) \
        and all(is_inst(x, "Spec") for x in g["elements"])


@spec
def dnf(g: V) -> bool:
    return is_dict(g) and has(g, "_type") and has(g, "elements") and g["_type"] == "spec_or" and is_list(g["elements"]) \
        and all(and_of_leaves(x) for x in g["elements"])


contract(
    EXP, "flatten_or_group", prop="C07", value_mode=True, allocates=True,
    requires=["is_dict(group)", "has(group, 'elements')", "is_list(group['elements'])",
              "all(and_of_leaves(x) or dnf(x) for x in group['elements'])"],
    ensures=["dnf(result)", "sat(result) == any_sat(group['elements'])", "fresh(result)"],
    loops={"for elem in group['elements']": dict(index="k", inv=[
        "is_list(new_elements)", "fresh(new_elements)",
        "all(and_of_leaves(x) for x in new_elements)",
        "any_sat(new_elements) == any_sat_upto(group['elements'], k)"])},
)

COMP_OR = ("[normalize_element_groups(elem) if isinstance(elem, dict) else {'_type': 'spec_and', 'elements': [elem]} "
           "for elem in group['elements']]")

contract(
    EXP, "normalize_element_groups", prop="C07", value_mode=True, allocates=True,
    requires=["acyclic()", "is_input(group)", "wf(group)"],
    ensures=["dnf(result)", "sat(result) == sat(group)"],
    decreases="rank(group)",
    comps={COMP_OR: dict(each=["and_of_leaves(_item) or dnf(_item)", "sat(_item) == sat(elem)"])},
    loops={
        "for elem in group['elements']": dict(index="k", inv=[
            "is_list(results)", "all(and_of_leaves(x) for x in results)",
            "any_sat(results) == all_sat_upto(group['elements'], k)"]),
        "for res_elem in results": dict(index="a", inv=[
            "is_list(new_results)", "fresh(new_results)", "all(and_of_leaves(x) for x in new_results)",
            "any_sat(new_results) == (any_sat_upto(results, a) and any_sat(normalized['elements']))"]),
        "for norm_elem in normalized['elements']": dict(index="b", inv=[
            "is_list(new_results)", "fresh(new_results)", "all(and_of_leaves(x) for x in new_results)",
            "any_sat(new_results) == ((any_sat_upto(results, a) and any_sat(normalized['elements'])) or "
            "(sat(res_elem) and any_sat_upto(normalized['elements'], b)))"]),
    },
)
