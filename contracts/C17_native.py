"""C17 — arbitrary LLM output never breaks a turn and is treated as data.

Native (bounded) side only.  The oracles are contracts on the *real* `LLMRails.generate` driven by a scripted LLM
(tests/utils.py::FakeLLM of the repository under test) and on the real string helpers the generation actions use.

  G  (totality of the turn)   whatever text the LLM returns at any of its call positions, `generate` returns and the
                              value is a well-formed message: {"role": "assistant", "content": <str>} or a rail-exception
                              message {"role": "exception", "content": {"type": "...Exception", ...}}.  It never raises
                              and never hangs (hard timeout).
  D  (LLM output is data)     template / variable syntax inside LLM-produced *message text* comes back literally:
                              for a message text T without surrounding whitespace / quotes the content is exactly T
                              (`{{ 7*7 }}` stays, `$user_message`, `$secret`, `{% for %}`, `${...}` are not touched);
                              no hostile output at a message position makes the content reveal a context variable the
                              configuration never utters, or the value of an arithmetic template expression.
  H  (helpers are total)      the string helpers of actions/llm/utils.py and the parsers of llm/output_parsers.py return a
                              value of their declared shape for every string / list of lines (no exception).

Modes (Colang 1.0): standard three-step pipeline, single_call, general (no dialog rails), passthrough (with and without
dialog rails), a flow with `$name = ...` (generate_value + predefined message rendering the generated value), self-check input /
output rails with rail exceptions enabled (the LLM calls of the rails are call positions too), multi-step generation
(the next-step call, whose output is parsed and started as a flow, has its own record); Colang 2.x: `llm continuation`
(user intent detection, flow continuation) and `$v = ...` value generation (value uttered directly / interpolated into a string).
Conversations have two turns; the hostile output is put at every LLM call position of either turn.  The LLM is the
repository's tests/utils.py::FakeLLM, scripted per turn (a benign filler follows the script, so no call ever fails).

Known to fail on the anchored tree (kept, reported): multi-step next-step outputs that are not a well-formed flow body make
generate() raise or hang; Colang 2.x generated values that are not JSON-serialisable make generate() raise; Colang 2.x string
interpolation re-interprets `{{`, `}}`, `$name` inside an interpolated LLM value."""
from pyvc.api import *

PROP = "C17"
GEN = "nemoguardrails/actions/llm/generation.py"
GEN2 = "nemoguardrails/actions/v2_x/generation.py"
UTILS = "nemoguardrails/actions/llm/utils.py"
PARSERS = "nemoguardrails/llm/output_parsers.py"
RUNTIME1 = "nemoguardrails/colang/v1_0/runtime/runtime.py"
EVAL2 = "nemoguardrails/colang/v2_x/runtime/eval.py"

SECRET = "S3CR3T-9f1e"
TURN_TIMEOUT_S = 8.0
MAX_LLM_CALLS_PER_TURN = 40

G_CLAUSE = ("generate() returns (never raises, never hangs) a well-formed message: {'role': 'assistant', 'content': str} "
            "or a rail-exception message {'role': 'exception', 'content': {'type': '...Exception'}}")
D_EXACT = "LLM-produced message text T (template / variable syntax, no surrounding blanks or quotes) is returned literally: content == T"
D_LEAK = ("a hostile LLM output at a message position is data: the content neither reveals the context variable `secret` "
          "(never uttered by the configuration) nor the value 49 of the template expression 7*7")

# =============================================================================================
# hostile corpus
# =============================================================================================
BLANKS = ["", " ", "   ", "\n", "\n\n", " \t \n ", "\r\n", "\t", "\n \n\t\n"]
TEMPLATES = ["(remove last message)", "{{ 7*7 }}", "  \"{{ 7*7 }}\"", "{{", "}}", "{% for %}", "{% for x in y %}", "{% raw %}", "{# c #}", "{{ secret }}",
             "$secret", "${secret}", "  \"$secret and {{ secret }}\"", "$user_message", "${", "$", "$$", "$1",
             "{{ ''.__class__.__mro__ }}", "{{ config }}", "%s %d {0} {} %(x)s", "{% if secret %}{{ secret }}{% endif %}",
             "bot {{ 7*7 }}", "  {{ secret }}\nbot {{ secret }}\n  \"{{ secret }} {{ 7*7 }}\"", "\"{% include 'x' %}\"",
             "{{ 7*7 }}\n{{ 7*7 }}\n{{ 7*7 }}", "<<STREAMING[{{ 7*7 }}]>>"]
COLANG_ISH = ["define flow", "define flow x\n  user y\n  bot z", "define user x\n  \"y\"", "bot", "bot ", "user", "user ",
              "bot \"x\"", "bot ,", "bot $", "bot $nosuchvar", "execute foo", "execute generate_user_intent", "bot x\nexecute foo",
              "if $x\n  bot y", "  else", "when user x", "flow main\n  match X", "goto a", "label a", "stop", "bot stop",
              "bot (remove last message)", "  \"(remove last message)\"", "$x = 1", "# comment only", "#", "...", "user ...", "bot ...",
              "user \"hi\"\n  greet\nbot greet\n  \"yo\"", "bot inform internal error occurred", "bot refuse to respond",
              "bot a\n  bot b\n if", "bot a and b or c", "bot respond to question, then stop", "event X", "create event Y(z=1)",
              "bot x\nuser y\nbot z\nuser w", "user express greeting", "  express greeting", "express greeting\nbot express greeting",
              "bot express greeting", "meta\n  x: y", "while True\n  bot x", "bot x\n\tbot y", "break", "continue", "return", "do x",
              "abort", "bot:", "bot: x", "- bot x"]
PREFIXES = ["User intent: x", "Bot intent: y", "Bot message: \"z\"", "user intent: x", "bot intent: y", "bot action: z",
            "User: hi", "Assistant: hi", "AI:", "User message: \"x\"", "Bot message: \"<<STREAMING[abc]>>\"",
            "x\nbot y\nBot message: \"<<STREAMING[abc]>>\"", "User intent: x\nBot intent: y\nBot message: \"z\"",
            "user intent: x\nbot intent: y\nbot action: bot say \"z\"", "bot action: bot say \"hi\"\n  and bot gesture \"wave\"",
            "bot say \"z\"", "user said \"q\"", "Thought: I should\nAction: x", "```colang\nbot x\n```", "Sure! Here is the answer:\nbot x"]
QUOTES = ["\"", "\"\"", "\"\"\"", "'", "''", "\"unterminated", "terminated\"", "\"a\" \"b\"", "\\\"", "`code`", "```\ncode\n```",
          "  \"", "  \"\"", "\"\n\"", "'\"'", "\"\\\"", "  \"multi\nline\nmessage\"", "  \"a\\nb\"", "\"'\"'\"'"]
UNICODE = ["\u200b", "\u00a0", "h\u00e9llo w\u00f6rld", "\u65e5\u672c\u8a9e\u306e\u30c6\u30ad\u30b9\u30c8", "\U0001F600\U0001F389",
           "\u202e reversed", "\x00", "a\x00b", "\x1b[31mred\x1b[0m", "a\rb", "\x0c", "\ufeffbot x", "bot\u00a0x", "\u2028", "\u0085",
           "  \"\u00fc\u00df\u20ac \U0001F600\"", "\u0628\u0648\u062a x"]
LITERALS = ["{\"a\": 1}", "[1,2", "None", "True", "123", "1.5e3", "__import__('os').system('true')", "\"Ann\";", "'a' 'b'",
            "(1,", "lambda: 0", "9**9**9", "\"a\" * 3", "[[[[[[[[[[[[[[[[[[[[]]]]]]]]]]]]]]]]]]]]", "b'x'", "{1, 2}", "- 1", "1;"]
LONG = ["x" * 20000, "bot " + "y" * 5000, "line\n" * 2000, "\"" + "z" * 10000, "  \"" + "w " * 4000 + "\"", "bot a\n" * 300,
        "{{ 7*7 }} " * 1500, "$secret " * 1500, "\n" * 5000 + "bot x", "(" * 3000]

CORE = (BLANKS + TEMPLATES + COLANG_ISH[:24] + PREFIXES[:12] + QUOTES[:9] + UNICODE[:6] + LITERALS[:7] + LONG[:4])
REST = COLANG_ISH[24:] + PREFIXES[12:] + QUOTES[9:] + UNICODE[6:] + LITERALS[7:] + LONG[4:]
CORPUS = CORE + REST

TOKENS = ["{{", "}}", "{%", "%}", "$", "${", "\"", "'", "\n", "\n\n", "  ", "\t", "#", "bot ", "user ", "\nuser ", "\nbot ", "...", ",",
          "$secret", "{{ secret }}", "{{ 7*7 }}", "\\n", "\\", "\x00", "\u200b", "User intent: ", "Bot message: ", ":", "(", ")"]

# message texts for the exact pass-through oracle: single line, no leading/trailing blanks or quotes, no backslash
PAYLOADS = ["Your total is {{ 7*7 }} dollars.", "{{ 7 * 7 }}", "You said: $user_message", "$secret", "{{ secret }} and {{ user_message }}",
            "Loop: {% for x in y %}", "{% for x in range(3) %}a{% endfor %}", "{% if secret %}leak{% endif %}",
            "{% raw %}{{ x }}{% endraw %}", "{# a comment #} visible", "Config is {{ event }} / ${last_bot_message}", "${secret}",
            "Price: $5 and $10.50", "$", "a $ b", "{{", "}}", "{{ unclosed", "{%", "{{ ''.__class__.__mro__ }}", "{{ config.models }}",
            "$config", "$bot_message", "$last_user_message", "%s %d {0} {} %(x)s", "<script>alert('{{ 1+1 }}')</script>",
            "{{ secret | upper }}", "$secret.upper()", "$secret[0]", "\u65e5\u672c\u8a9e {{ 7*7 }} \U0001F600", "He said \"{{ secret }}\" twice",
            "$name and $relevant_chunks", "{{ generation_options }}", "Plain answer, nothing special."]

# =============================================================================================
# configurations
# =============================================================================================
YAML = """
models:
  - type: main
    engine: openai
    model: gpt-3.5-turbo-instruct
  - type: embeddings
    engine: c17hashemb
    model: h
"""
COLANG = """
define user express greeting
  "hello"
  "hi"

define bot express greeting
  "Hey there!"

define flow greeting
  user express greeting
  bot express greeting

define user ask question
  "what is x"
"""
GENERAL_COLANG = """
define bot refuse to respond
  "I cannot answer that."
"""
VALUE_COLANG = COLANG + """
define user give name
  "my name is x"

define flow name
  user give name
  $name = ...
  bot confirm name

define bot confirm name
  "Thanks $name!"
"""
V2_YAML = """
colang_version: "2.x"
models:
  - type: main
    engine: openai
    model: gpt-3.5-turbo-instruct
  - type: embeddings
    engine: c17hashemb
    model: h
"""
V2_COLANG = '''
import core
import llm

flow main
  activate llm continuation
  activate greeting
  activate other reactions

flow greeting
  user expressed greeting
  bot say "Hello world!"

flow other reactions
  user expressed to be bored
  bot say "No problem!"

flow user expressed greeting
  """"User expressed greeting in any way or form."""
  user said "hi"

flow user expressed to be bored
  """"User expressed to be bored."""
  user said "This is boring"
'''
V2_VALUE_COLANG = '''
import core

flow main
  match UtteranceUserActionFinished()
  $v = ..."Generate the name of the user"
  await UtteranceBotAction(script=$v)
  match UtteranceUserActionFinished()
  $w = ..."Generate the name of the user"
  await UtteranceBotAction(script=$w)
'''
V2_VALUE_INTERPOLATED_COLANG = '''
import core

flow main
  match UtteranceUserActionFinished()
  $v = ..."Generate the name of the user"
  await UtteranceBotAction(script="Thanks {$v}!")
  match UtteranceUserActionFinished()
  $w = ..."Generate the name of the user"
  await UtteranceBotAction(script="Thanks {$w}!")
'''
V2_MODES = {"v2": V2_COLANG, "v2_value": V2_VALUE_COLANG, "v2_value_interpolated": V2_VALUE_INTERPOLATED_COLANG}

SELF_CHECK_YAML = YAML + """
enable_rails_exceptions: True
rails:
  input:
    flows:
      - self check input
  output:
    flows:
      - self check output
prompts:
  - task: self_check_input
    content: |
      Should the user message below be blocked?
      User message: "{{ user_input }}"
      Answer (Yes or No):
  - task: self_check_output
    content: |
      Should the bot message below be blocked?
      Bot message: "{{ bot_response }}"
      Answer (Yes or No):
"""

INTENT_OK, NEXT_OK, MSG_OK = "  ask question", "bot respond to question", "  \"Sure thing.\""

# mode -> yaml, colang, well-formed LLM outputs of ONE turn, kind of each call, wrapper of a message text per call kind
MODES = {
    "standard": dict(yaml=YAML, colang=COLANG, turn=[INTENT_OK, NEXT_OK, MSG_OK], kinds=["intent", "next", "message"], context=True,
                     file=GEN),
    "single_call": dict(yaml=YAML + "rails:\n  dialog:\n    single_call:\n      enabled: True\n", colang=COLANG,
                        turn=["  ask question\nbot respond to question\n  \"Sure thing.\""], kinds=["single"], context=True, file=GEN),
    "general": dict(yaml=YAML, colang=GENERAL_COLANG, turn=["Sure thing."], kinds=["message"], context=True, file=GEN),
    "passthrough": dict(yaml=YAML + "passthrough: True\n", colang=GENERAL_COLANG, turn=["Sure thing."], kinds=["message"],
                        context=False, file=GEN),
    "passthrough_dialog": dict(yaml=YAML + "passthrough: True\n", colang=COLANG, turn=[INTENT_OK, NEXT_OK, "Sure thing."],
                               kinds=["intent", "next", "message"], context=False, file=GEN),
    "value": dict(yaml=YAML, colang=VALUE_COLANG, turn=["  give name", "\"Ann\""], kinds=["intent", "value"], context=True, file=GEN),
    "self_check": dict(yaml=SELF_CHECK_YAML, colang=COLANG, turn=["No", INTENT_OK, NEXT_OK, MSG_OK, "No"],
                       kinds=["input_check", "intent", "next", "message", "output_check"], context=True, file=GEN),
    "multi_step": dict(yaml=YAML + "enable_multi_step_generation: True\n", colang=COLANG, turn=[INTENT_OK, NEXT_OK, MSG_OK],
                       kinds=["intent", "next", "message"], context=True, file=GEN),
}
USER_MSGS = ["what is the thing", "and the other thing"]
FILLER = "  \"filler\""


def _wrap(mode, text):
    """the well-formed LLM output(s) of one turn of `mode` whose message text is `text`; returns (outputs, expected content)"""
    if mode in ("standard", "multi_step"):
        return [INTENT_OK, NEXT_OK, "  \"%s\"" % text], text
    if mode == "self_check":
        return ["No", INTENT_OK, NEXT_OK, "  \"%s\"" % text, "No"], text
    if mode == "single_call":
        return ["  ask question\nbot respond to question\n  \"%s\"" % text], text
    if mode in ("general", "passthrough"):
        return [text], text
    if mode == "passthrough_dialog":
        return [INTENT_OK, NEXT_OK, text], text
    if mode == "value":
        return ["  give name", repr(text)], "Thanks %s!" % text
    raise KeyError(mode)


def _short(x, n=260):
    s = x if isinstance(x, str) else repr(x)
    r = repr(s) if isinstance(x, str) else s
    return r if len(r) <= n else r[:n // 2] + "...<%d chars>..." % len(r) + r[-n // 3:]


# =============================================================================================
# driver
# =============================================================================================
class _Timeout(BaseException):
    pass


_ENV = {}


def _env():
    """imports + the offline embedding provider + the scripted LLM class (once)"""
    if _ENV:
        return _ENV
    import hashlib
    import warnings
    warnings.filterwarnings("ignore")
    from nemoguardrails import LLMRails, RailsConfig
    from nemoguardrails.embeddings.providers import register_embedding_provider
    from nemoguardrails.embeddings.providers.base import EmbeddingModel
    from tests.utils import FakeLLM

    class C17HashEmb(EmbeddingModel):
        """deterministic offline embedding model"""
        engine_name = "c17hashemb"

        def __init__(self, embedding_model=None, **kwargs):
            self.model = embedding_model

        def encode(self, documents):
            return [[b / 255.0 for b in hashlib.sha256(d.encode("utf-8", "replace")).digest()[:16]] for d in documents]

        async def encode_async(self, documents):
            return self.encode(documents)

    try:
        register_embedding_provider(C17HashEmb, "c17hashemb")
    except Exception:
        pass

    class ScriptLLM(FakeLLM):
        """FakeLLM of the repository that never runs out of completions (a benign filler follows the script of the turn)
        and that refuses to serve an unbounded number of calls in one turn"""
        calls_in_turn: int = 0

        def _next(self):
            self.calls_in_turn += 1
            if self.calls_in_turn > MAX_LLM_CALLS_PER_TURN:
                raise RuntimeError("C17 driver: more than %d LLM calls in one turn" % MAX_LLM_CALLS_PER_TURN)
            if self.i >= len(self.responses):
                self.i += 1
                return FILLER
            r = self.responses[self.i]
            self.i += 1
            return r

        def _call(self, prompt, stop=None, run_manager=None, **kwargs):
            return self._next()

        async def _acall(self, prompt, stop=None, run_manager=None, **kwargs):
            return self._next()

    _ENV.update(LLMRails=LLMRails, RailsConfig=RailsConfig, ScriptLLM=ScriptLLM)
    return _ENV


_RAILS = {}


def _rails(mode):
    if mode in _RAILS:
        return _RAILS[mode]
    env = _env()
    if mode in V2_MODES:
        yaml, colang = V2_YAML, V2_MODES[mode]
    else:
        yaml, colang = MODES[mode]["yaml"], MODES[mode]["colang"]

    def build():
        config = env["RailsConfig"].from_content(colang_content=colang, yaml_content=yaml)
        llm = env["ScriptLLM"](responses=[])
        return env["LLMRails"](config, llm=llm), llm

    st, out = _guarded(build, seconds=60.0)
    if st != "ok":
        raise RuntimeError("C17 driver: cannot build the %s configuration: %s" % (mode, out))
    _RAILS[mode] = out
    return out


def _set_script(llm, outputs):
    llm.responses, llm.i, llm.calls_in_turn = list(outputs), 0, 0


def _guarded(fn, seconds=None):
    """run fn() under a hard wall-clock limit (SIGALRM; main thread only) with the library's prints swallowed.
    returns ("ok", value) | ("raised", text) | ("timeout", text)"""
    import asyncio
    import contextlib
    import io
    import signal
    import threading
    seconds = TURN_TIMEOUT_S if seconds is None else seconds
    use_alarm = threading.current_thread() is threading.main_thread() and hasattr(signal, "setitimer")

    def on_alarm(*a):
        raise _Timeout()

    old = None
    if use_alarm:
        old = signal.signal(signal.SIGALRM, on_alarm)
        signal.setitimer(signal.ITIMER_REAL, seconds)
    try:
        try:
            with contextlib.redirect_stdout(io.StringIO()), contextlib.redirect_stderr(io.StringIO()):
                return "ok", fn()
        finally:
            if use_alarm:
                signal.setitimer(signal.ITIMER_REAL, 0)
    except _Timeout:
        try:
            asyncio.set_event_loop(asyncio.new_event_loop())
        except Exception:
            pass
        return "timeout", "did not return within %.1f s (hard timeout)" % seconds
    except BaseException as ex:  # noqa
        if isinstance(ex, KeyboardInterrupt):
            raise
        return "raised", "raised %s: %s" % (type(ex).__name__, str(ex)[:220])
    finally:
        if use_alarm and old is not None:
            signal.signal(signal.SIGALRM, old)


def _well_formed(msg):
    if not isinstance(msg, dict):
        return False
    if msg.get("role") == "assistant":
        return isinstance(msg.get("content"), str)
    if msg.get("role") == "exception":
        c = msg.get("content")
        return isinstance(c, dict) and isinstance(c.get("type"), str) and c["type"].endswith("Exception")
    return False


_BASE_CACHE = {}


def _converse(mode, scripts, start_turn=0, timeout=None):
    """run the two-turn conversation of `mode`; scripts[t] = the LLM outputs served, in order, during turn t (a benign
    filler follows).  start_turn=1: the first turn is the (cached) well-formed one, only the second turn is run.
    returns list of (turn, status, message-or-text), status in ok / raised / timeout / malformed"""
    rails, llm = _rails(mode)
    spec = MODES[mode]
    messages = []
    if spec["context"]:
        messages.append({"role": "context", "content": {"secret": SECRET}})
    rails.events_history_cache.clear()
    if start_turn == 1:
        if mode not in _BASE_CACHE:
            _set_script(llm, spec["turn"])
            m0 = messages + [{"role": "user", "content": USER_MSGS[0]}]
            st, out = _guarded(lambda: rails.generate(messages=[dict(m) for m in m0]))
            _BASE_CACHE[mode] = (st, out, dict(rails.events_history_cache))
            rails.events_history_cache.clear()
        st, out, cache = _BASE_CACHE[mode]
        if st != "ok" or not _well_formed(out) or out.get("role") != "assistant":
            return [(0, st if st != "ok" else "malformed", out)]
        rails.events_history_cache.update({k: list(v) for k, v in cache.items()})
        messages = messages + [{"role": "user", "content": USER_MSGS[0]}, dict(out)]
    res = []
    for turn in range(start_turn, 2):
        messages.append({"role": "user", "content": USER_MSGS[turn]})
        _set_script(llm, scripts[turn])
        st, out = _guarded(lambda: rails.generate(messages=[dict(m) for m in messages]), seconds=timeout)
        if st == "ok" and not _well_formed(out):
            st = "malformed"
        res.append((turn, st, out))
        if st != "ok" or out.get("role") != "assistant":
            break
        messages.append(dict(out))
    return res


def _fail(function, file, clause, inputs, outcome):
    return dict(kind="post", function=function, file=file, property_id=PROP, clause=clause, inputs=inputs, outcome=outcome)


def _outcome_class(outcome):
    import re
    m = re.search(r"raised (\w+)", outcome)
    if m:
        return m.group(1) + (":dynamic.co" if "dynamic.co" in outcome else "")
    if "hard timeout" in outcome:
        return "timeout"
    return outcome[:25]


class _Rec:
    """one record of the report; keeps at most 2 failures per (clause, outcome class) and `cap` in all"""

    def __init__(self, function, file, bound, cap=6):
        self.function, self.file, self.bound, self.cap = function, file, bound, cap
        self.n = 0
        self.seen = set()
        self.failing = []
        self.classes = {}
        self.nfail = 0

    def count(self, key):
        self.n += 1
        self.seen.add(key)

    def fail(self, clause, inputs, outcome, file=None):
        self.nfail += 1
        k = (clause, _outcome_class(outcome))
        self.classes[k] = self.classes.get(k, 0) + 1
        if self.classes[k] <= 2 and len(self.failing) < self.cap:
            self.failing.append(_fail(self.function, file or self.file, clause, inputs, outcome))

    def record(self):
        return dict(function=self.function, evaluations=self.n, distinct=len(self.seen), failures=self.nfail, failing=self.failing,
                    bound=self.bound)


def _positions(mode):
    """(turn, index in the turn, kind) of every LLM call of the well-formed two-turn conversation"""
    k = MODES[mode]["kinds"]
    return [(t, i, k[i]) for t in range(2) for i in range(len(k))]


def _describe(mode, turn, idx, kind, hostile, extra=""):
    return "mode=%s; turn %d, LLM call #%d (%s) returns %s%s; all other LLM calls return the well-formed %r; user messages %r" % (
        mode, turn + 1, idx + 1, kind, _short(hostile), extra, MODES[mode]["turn"], USER_MSGS)


def _turn_text(turn, st, out):
    return "turn %d: %s" % (turn + 1, out if isinstance(out, str) else "malformed message %s" % _short(out))


def _check_conversation(rec, mode, scripts, start_turn, where, leak_src=None, timeout=None):
    """G on every turn that is run (+ D_LEAK when `leak_src` is the hostile text at a message position)"""
    res = _converse(mode, scripts, start_turn, timeout=timeout)
    for turn, st, out in res:
        if st != "ok":
            rec.fail(G_CLAUSE, where, _turn_text(turn, st, out),
                     file=RUNTIME1 if (st == "timeout" or (isinstance(out, str) and "dynamic.co" in out)) else None)
            return res
    if len(res) < 2 - start_turn and all(o.get("role") == "assistant" for _t, _s, o in res):
        rec.fail(G_CLAUSE, where, "conversation stopped after turn %d" % len(res))
    if leak_src is not None:
        for turn, st, out in res:
            c = out.get("content") if isinstance(out, dict) else None
            if isinstance(c, str):
                if SECRET in c and SECRET not in leak_src:
                    rec.fail(D_LEAK, where, "turn %d: content %s reveals the context variable" % (turn + 1, _short(c)))
                    break
                if ("7*7" in leak_src or "7 * 7" in leak_src) and "49" not in leak_src and "49" in c:
                    rec.fail(D_LEAK, where, "turn %d: content %s contains the evaluated expression" % (turn + 1, _short(c)))
                    break
    return res


def _mutate(rng, s):
    op = rng.randrange(11)
    i = rng.randrange(len(s) + 1)
    if op == 0:
        return s[:i] + rng.choice(TOKENS) + s[i:]
    if op == 1 and s:
        return s[:max(i - 1, 0)] + s[i:]
    if op == 2:
        j = rng.randrange(len(s) + 1)
        a, b = min(i, j), max(i, j)
        return s[:b] + s[a:b] * rng.randint(1, 3) + s[b:]
    if op == 3:
        return s[:i]
    if op == 4:
        return s.swapcase()
    if op == 5:
        return s.replace("\"", rng.choice(["'", "", "\"\"", "\\\""]))
    if op == 6:
        return rng.choice(BLANKS) + s + rng.choice(["", "\n", "\nuser \"x\"", "\nuser ", "\n  \"more\"", "\nbot other", " # c", ";"])
    if op == 7:
        return s.replace(" ", rng.choice(["\t", "\n", "  ", "\u00a0"]))
    if op == 8:
        return "\n".join([s] * rng.randint(2, 30))
    if op == 9:
        return rng.choice(["User intent: ", "Bot intent: ", "Bot message: ", "user ", "bot ", "bot action: ", "AI: ", "- "]) + s.strip()
    return s[:i] + rng.choice(TOKENS) + s[i:i + 3] + rng.choice(TOKENS) + s[i + 3:]


def _scripts_with(mode, turn, idx, h):
    scripts = [list(MODES[mode]["turn"]), list(MODES[mode]["turn"])]
    scripts[turn][idx] = h
    return scripts


def _skip(mode, kind, tier="thorough"):
    """the next-step call of multi-step generation has its own record; quick tier: see QUICK_KINDS"""
    if tier != "thorough" and mode in QUICK_KINDS and kind not in QUICK_KINDS[mode]:
        return True
    return mode == "multi_step" and kind == "next"


# =============================================================================================
# scenario families
# =============================================================================================
ALWAYS = BLANKS + TEMPLATES[:13]
QUICK_SIZES = dict(standard=(38, 12), single_call=(70, 24), general=(70, 24), passthrough=(50, 16), passthrough_dialog=(22, 8),
                   value=(32, 10), multi_step=(24, 8), self_check=(16, 6))
# kinds of LLM call that get a hostile output in the quick tier (None: all); the other calls of these modes run the same code as `standard`
QUICK_KINDS = dict(self_check=("input_check", "output_check", "message"))


def _pick(rng, tier, mode, turn):
    if tier == "thorough":
        return list(CORPUS) if turn == 0 and mode not in ("self_check", "multi_step") else list(CORE)
    size = QUICK_SIZES[mode][turn]
    if turn == 1:
        base = BLANKS[:6] + TEMPLATES[:8] if size >= 14 else BLANKS[:3] + TEMPLATES[:3]
    else:
        base = list(ALWAYS) if size >= 30 else BLANKS[:5] + TEMPLATES[:6]
    rest = [h for h in CORPUS if h not in base]
    return base + rng.sample(rest, max(0, min(len(rest), size - len(base))))


def _single_position_family(rng, tier, mode):
    """one hostile output at one LLM call position of the two-turn conversation"""
    spec = MODES[mode]
    first, second = _pick(rng, tier, mode, 0), _pick(rng, tier, mode, 1)
    rec = _Rec("LLMRails.generate[%s: hostile output at one LLM call]" % mode, spec["file"],
               "mode %s, 2-turn conversation, LLM call positions (%s per turn%s) x hostile corpus (%d strings at first-turn positions, "
               "both turns run; %d at second-turn positions; the full corpus has %d); hard timeout %.0f s per turn" % (
                   mode, "/".join(k for k in spec["kinds"] if not _skip(mode, k, tier)),
                   "; the next-step call has its own record" if mode == "multi_step" else "",
                   len(first), len(second), len(CORPUS), TURN_TIMEOUT_S))
    for turn, idx, kind in _positions(mode):
        if _skip(mode, kind, tier):
            continue
        for h in (first if turn == 0 else second):
            rec.count((turn, idx, h))
            _check_conversation(rec, mode, _scripts_with(mode, turn, idx, h), turn, _describe(mode, turn, idx, kind, h),
                                leak_src=h if kind in ("message", "value") else None)
    return rec.record()


def _mutation_family(rng, tier, mode):
    spec = MODES[mode]
    per_pos = (20 if mode in ("self_check", "multi_step") else 40) if tier == "thorough" else 3 if mode in QUICK_KINDS else 6
    n_all = 80 if tier == "thorough" else 5 if mode in QUICK_KINDS else 10
    rec = _Rec("LLMRails.generate[%s: mutated well-formed outputs / all calls hostile]" % mode, spec["file"],
               "mode %s, 2-turn conversation, %d random mutations (insert hostile token, delete, duplicate, truncate, case, quotes, "
               "blank/prefix/suffix, repeat; 1-3 rounds) of the well-formed output at every LLM call position; plus %d conversations with EVERY "
               "call drawn from the hostile corpus%s" % (mode, per_pos, n_all,
                                                       " (next-step call excluded: own record)" if mode == "multi_step" else ""))
    for turn, idx, kind in _positions(mode):
        if _skip(mode, kind, tier):
            continue
        for _ in range(per_pos):
            h = spec["turn"][idx]
            for _r in range(rng.randint(1, 3)):
                h = _mutate(rng, h)
            rec.count((turn, idx, h))
            _check_conversation(rec, mode, _scripts_with(mode, turn, idx, h), turn,
                                _describe(mode, turn, idx, kind, h, " (a mutation of the well-formed output)"),
                                leak_src=h if kind in ("message", "value") else None)
    for _ in range(n_all):
        scripts = [[spec["turn"][i] if _skip(mode, kind) else rng.choice(CORPUS) for i, kind in enumerate(spec["kinds"])] for _t in range(2)]
        rec.count(("all", tuple(map(tuple, scripts))))
        _check_conversation(rec, mode, scripts, 0, "mode=%s; the LLM calls of turn 1 / turn 2 return, in order, %s / %s; user messages %r" % (
            mode, [_short(s, 60) for s in scripts[0]], [_short(s, 60) for s in scripts[1]], USER_MSGS))
    return rec.record()


def _literal_family(rng, tier, mode):
    spec = MODES[mode]
    rec = _Rec("LLMRails.generate[%s: template/variable syntax in LLM message text]" % mode, spec["file"],
               "mode %s, 2-turn conversations; the LLM's message text of turn 1 / turn 2 ranges over %d payloads with Jinja / $variable / "
               "${...} / %%-format syntax (single line, no surrounding blanks or quotes)%s, all other calls well-formed; context variable "
               "`secret` set where the mode accepts a context message" % (
                   mode, len(PAYLOADS), " (every second one as turn-1 text in the quick tier)"
                   if tier != "thorough" and mode in ("passthrough_dialog", "multi_step", "self_check") else ""))
    k = len(PAYLOADS)
    for i, p1 in enumerate(PAYLOADS):
        if tier != "thorough" and mode in ("passthrough_dialog", "multi_step", "self_check") and i % 2:
            continue
        p2 = PAYLOADS[(i * 5 + 7) % k]
        s1, e1 = _wrap(mode, p1)
        s2, e2 = _wrap(mode, p2)
        rec.count((p1, p2))
        where = "mode=%s; LLM message text turn 1: %s, turn 2: %s (LLM outputs %s / %s); user messages %r" % (
            mode, _short(p1), _short(p2), [_short(s, 80) for s in s1], [_short(s, 80) for s in s2], USER_MSGS)
        res = _converse(mode, [s1, s2], 0)
        bad = None
        for (turn, st, out), exp in zip(res, (e1, e2)):
            if st != "ok":
                rec.fail(G_CLAUSE, where, _turn_text(turn, st, out))
                bad = True
                break
            if out.get("role") != "assistant" or out.get("content") != exp:
                rec.fail(D_EXACT, where, "turn %d: expected content %s, got %s" % (turn + 1, _short(exp), _short(out)))
                bad = True
                break
        if bad is None and len(res) < 2:
            rec.fail(G_CLAUSE, where, "conversation stopped after turn %d" % len(res))
    if mode == "standard":
        # the stored text of an earlier LLM message said again through a variable (`bot $last_bot_message` as the next step of turn 2)
        for i, p1 in enumerate(PAYLOADS):
            if tier != "thorough" and i % 3:
                continue
            s1, e1 = _wrap(mode, p1)
            s2 = [INTENT_OK, "bot $last_bot_message"]
            rec.count((p1, "bot $last_bot_message"))
            where = "mode=%s; LLM message text turn 1: %s; next step of turn 2: `bot $last_bot_message` (LLM outputs %s / %s); user messages %r" % (
                mode, _short(p1), [_short(x, 80) for x in s1], s2, USER_MSGS)
            res = _converse(mode, [s1, s2], 0)
            for (turn, st, out), exp in zip(res, (e1, p1)):
                if st != "ok":
                    rec.fail(G_CLAUSE, where, _turn_text(turn, st, out))
                    break
                if out.get("role") != "assistant" or out.get("content") != exp:
                    rec.fail(D_EXACT, where, "turn %d: expected content %s, got %s" % (turn + 1, _short(exp), _short(out)))
                    break
    return rec.record()


# one witness per way the unchanged multi-step path is known to react + ordinary hostile strings
MULTI_STEP_NEXT_QUICK = ["", "\"unterminated", "{{ 7*7 }}", "garbage", "User intent: x", "bot x\nuser y\nbot z", "define flow x\n  user y\n  bot z",
                         "define user x\n  \"y\"", "goto a", "bot (remove last message)", "do x", "while True\n  bot x", "user express greeting",
                         "bot $secret", "bot respond to question\n  \"Sure {{ 7*7 }}\""]


def _multi_step_next_family(rng, tier):
    """multi-step generation: hostile output at the next-step call (the flow body that is parsed and started)"""
    mode = "multi_step"
    hostile = list(CORPUS) if tier == "thorough" else list(MULTI_STEP_NEXT_QUICK)
    timeout = 1.0 if tier == "quick" else 2.0
    rec = _Rec("LLMRails.generate[multi_step: hostile output at the next-step call]", RUNTIME1,
               "multi-step generation mode, 2-turn conversation, the next-step LLM call of turn 1 returns one of %d hostile strings%s; other calls "
               "well-formed; hard timeout %.1f s per turn" % (len(hostile), "" if tier == "thorough" else " (one per reaction class of the code; "
                                                               "the thorough tier uses the whole corpus)", timeout), cap=12)
    for h in hostile:
        rec.count(h)
        _check_conversation(rec, mode, _scripts_with(mode, 0, 1, h), 0, _describe(mode, 0, 1, "next", h), timeout=timeout)
    return rec.record()


# ---------------------------------------------------------------------------------------------
# Colang 2.x
# ---------------------------------------------------------------------------------------------
def _v2_turns(mode, scripts, user_msgs):
    """two turns through generate(..., state=...) of a Colang 2.x configuration; returns [(turn, status, message-or-text)]"""
    rails, llm = _rails(mode)
    state = {}
    res = []
    for turn, text in enumerate(user_msgs):
        _set_script(llm, scripts[turn])
        st, out = _guarded(lambda: rails.generate(messages=[{"role": "user", "content": text}], state=state))
        msg = None
        if st == "ok":
            resp = getattr(out, "response", None)
            if isinstance(resp, list) and len(resp) == 1 and _well_formed(resp[0]):
                msg = resp[0]
                state = out.state
            else:
                st, out = "malformed", "malformed response %s" % _short(resp)
        res.append((turn, st, msg if st == "ok" else out))
        if st != "ok":
            break
    return res


V2_GOOD = ["user asked something else", "bot intent: bot provide answer\nbot action: bot say \"Sure thing.\""]
V2_QUICK = [(0, 0, ""), (0, 0, "{{ 7*7 }}"), (0, 1, ""), (0, 1, "{% for %}"), (0, 1, "bot say \"{{ 7*7 }} $secret\""), (1, 0, "   "),
            (1, 1, "\n\n")]


def _v2_family(rng, tier):
    if tier == "thorough":
        rest = [h for h in CORPUS if h not in BLANKS + TEMPLATES + PREFIXES]
        first = BLANKS + TEMPLATES + PREFIXES[:10] + rng.sample(rest, 10)
        cases = [(0, i, h) for i in range(2) for h in first] + [(1, i, h) for i in range(2) for h in BLANKS[:4] + TEMPLATES[:6] + PREFIXES[:5]]
    else:
        cases = list(V2_QUICK)
    rec = _Rec("LLMRails.generate[colang 2.x llm continuation: hostile output at one LLM call]", GEN2,
               "Colang 2.x `llm continuation` configuration, 2 turns via generate(state=...), LLM calls of a turn: user intent detection, "
               "flow continuation; %d (turn, call, hostile output) cases%s, other calls well-formed; hard timeout %.0f s per turn" % (
                   len(cases), "" if tier == "thorough" else " (blanks, template syntax; thorough tier: 55 corpus strings at the calls of turn 1, 15 at those of turn 2)",
                   TURN_TIMEOUT_S))
    users = ["what is the thing", "and the other thing"]
    for t, i, h in cases:
        scripts = [list(V2_GOOD), list(V2_GOOD)]
        scripts[t][i] = h
        rec.count((t, i, h))
        where = "colang 2.x llm continuation; turn %d, LLM call #%d returns %s; other calls return %r; user messages %r" % (
            t + 1, i + 1, _short(h), V2_GOOD, users)
        for turn, st, out in _v2_turns("v2", scripts, users):
            if st != "ok":
                rec.fail(G_CLAUSE, where, "turn %d: %s" % (turn + 1, out))
                break
    return rec.record()


def _v2_value_family(rng, tier, mode):
    how = {"v2_value": "UtteranceBotAction(script=$v)", "v2_value_interpolated": "UtteranceBotAction(script=\"Thanks {$v}!\")"}[mode]
    fmt = "%s" if mode == "v2_value" else "Thanks %s!"
    payloads = PAYLOADS if tier == "thorough" else PAYLOADS[:14] if mode == "v2_value" else PAYLOADS[:8]
    hostile = (list(CORPUS) if mode == "v2_value" else []) if tier == "thorough" else (BLANKS[:3] + TEMPLATES[:3] + ["...", "b'x'", "{1, 2}", "\"Ann\";", "__import__('os').system('true')"] + QUOTES[:2]
                                                      if mode == "v2_value" else [])
    rec = _Rec("LLMRails.generate[colang 2.x value generation `$v = ...` then %s]" % how, GEN2 if mode == "v2_value" else EVAL2,
               "Colang 2.x flow `$v = ...\"instruction\"` then %s, 2 turns: %d payload strings with template / variable syntax returned "
               "by the LLM as Python string literals (content must be the payload%s) and %d hostile outputs (well-formed message "
               "only)" % (how, len(payloads), "" if mode == "v2_value" else " inside 'Thanks ...!'", len(hostile)))
    users = ["my name is x", "my other name is y"]
    k = len(PAYLOADS)
    for i, p1 in enumerate(payloads):
        p2 = PAYLOADS[(i * 5 + 7) % k]
        rec.count((p1, p2))
        where = "colang 2.x `$v = ...` then %s; the LLM returns the Python string literals %s (turn 1), %s (turn 2); user messages %r" % (
            how, _short(repr(p1)), _short(repr(p2)), users)
        res = _v2_turns(mode, [[repr(p1)], [repr(p2)]], users)
        for (turn, st, out), p in zip(res, (p1, p2)):
            if st != "ok":
                rec.fail(G_CLAUSE, where, "turn %d: %s" % (turn + 1, out))
                break
            if out.get("role") != "assistant" or out.get("content") != fmt % p:
                rec.fail(D_EXACT, where, "turn %d: expected content %s, got %s" % (turn + 1, _short(fmt % p), _short(out.get("content"))))
                break
    for h in hostile:
        rec.count(("h", h))
        where = "colang 2.x `$v = ...` then %s; the value generation LLM call of turn 1 returns %s; user messages %r" % (how, _short(h), users)
        for turn, st, out in _v2_turns(mode, [[h], ["'Ann'"]], users):
            if st != "ok":
                rec.fail(G_CLAUSE, where, "turn %d: %s" % (turn + 1, out))
                break
    return rec.record()


# =============================================================================================
# H — helpers
# =============================================================================================
def _helper_inputs(rng, tier):
    strings = list(CORPUS) + list(PAYLOADS) + [m["turn"][i] for m in MODES.values() for i in range(len(m["turn"]))]
    n_mut = 3000 if tier == "thorough" else 400
    base = list(strings)
    for _ in range(n_mut):
        s = rng.choice(base)
        if len(s) > 400:
            s = s[:400]
        for _r in range(rng.randint(1, 4)):
            s = _mutate(rng, s)
        strings.append(s)
    for _ in range(n_mut // 4):
        strings.append("".join(rng.choice(TOKENS + ["a", "user intent: ", "bot intent: ", "bot action: ", "  and ", "  or ", "unsafe", "safe",
                                                    "yes", "no", " "]) for _k in range(rng.randint(0, 8))))
    return strings


def _helper_checks(rng, tier):
    import importlib
    U = importlib.import_module(UTILS[:-3].replace("/", "."))
    P = importlib.import_module(PARSERS[:-3].replace("/", "."))
    strings = _helper_inputs(rng, tier)
    lists = [s.split("\n") for s in strings] + [s.splitlines() for s in strings[:200]] + [
        [], [""], ["", ""], ["user intent: a", "bot intent: b", "bot action: c", "  and d", "", "bot action: e"], ["bot action: ", "  or x"],
        ["  and x"]]

    def lines_of(s):
        return [ln.strip() for ln in s.split("\n")]

    def is_strs(r):
        return isinstance(r, list) and all(isinstance(x, str) for x in r)

    str_specs = [
        (U, "get_first_nonempty_line", UTILS, "result is None (iff no non-empty line) or the first non-empty stripped line of s",
         lambda s, r: (r is None and not any(lines_of(s))) or (isinstance(r, str) and r != "" and r == [x for x in lines_of(s) if x][0])),
        (U, "strip_quotes", UTILS, "s without its leading double quote and the matching trailing one (s itself when it does not start with one)",
         lambda s, r: r == (s if not s.startswith("\"") else s[1:-1] if s.endswith("\"") else s[1:])),
        (U, "get_multiline_response", UTILS, "result is a str whose lines are stripped non-empty lines of s",
         lambda s, r: isinstance(r, str) and (r == "" or all(x != "" and x in lines_of(s) for x in r.split("\n")))),
        (U, "escape_flow_name", UTILS, "result is a str", lambda s, r: isinstance(r, str)),
        (U, "remove_text_messages_from_history", UTILS, "result is a str", lambda s, r: isinstance(r, str)),
        (P, "user_intent_parser", PARSERS, "result is a str", lambda s, r: isinstance(r, str)),
        (P, "bot_intent_parser", PARSERS, "result is a str", lambda s, r: isinstance(r, str)),
        (P, "bot_message_parser", PARSERS, "result is a str", lambda s, r: isinstance(r, str)),
        (P, "verbose_v1_parser", PARSERS, "result is a str with as many lines as s",
         lambda s, r: isinstance(r, str) and r.count("\n") == s.count("\n")),
        (P, "is_content_safe", PARSERS, "result is (bool, list of str)",
         lambda s, r: isinstance(r, tuple) and len(r) == 2 and isinstance(r[0], bool) and is_strs(r[1])),
    ]
    list_specs = [
        (U, "remove_action_intent_identifiers", "result is a list of str of the same length", lambda l, r: is_strs(r) and len(r) == len(l)),
        (U, "get_initial_actions", "result is the prefix of the list before the first empty string",
         lambda l, r: is_strs(r) and r == l[:len(r)] and "" not in r and (len(r) == len(l) or l[len(r)] == "")),
        (U, "get_first_user_intent", "result is None iff no line starts with 'user intent: ', else a str",
         lambda l, r: (r is None) == (not any(x.startswith("user intent: ") for x in l)) and (r is None or isinstance(r, str))),
        (U, "get_first_bot_intent", "result is None iff no line starts with 'bot intent: ', else a str",
         lambda l, r: (r is None) == (not any(x.startswith("bot intent: ") for x in l)) and (r is None or isinstance(r, str))),
        (U, "get_first_bot_action", "result is a str (or None), non-empty only if some line starts with 'bot action: '",
         lambda l, r: r is None or (isinstance(r, str) and (r == "" or any(x.startswith("bot action: ") for x in l)))),
    ]
    bound = "%d strings: hostile corpus, payloads, well-formed outputs, %s random mutations / token concatenations" % (
        len(strings), "3750" if tier == "thorough" else "500")
    for mod, name, file, clause, ok in str_specs:
        rec = _Rec(name, file, bound)
        fn = getattr(mod, name, None)
        if fn is None:
            rec.count("missing")
            rec.fail("%s exists" % name, "module %s" % file, "no such function")
            yield rec.record()
            continue
        for s in strings:
            rec.count(s)
            try:
                r = fn(s)
            except Exception as ex:
                rec.fail("%s(s) returns for every str s (no exception)" % name, "s=%s" % _short(s),
                         "raised %s: %s" % (type(ex).__name__, str(ex)[:160]))
                continue
            try:
                good = ok(s, r)
            except Exception:
                good = False
            if not good:
                rec.fail("%s: %s" % (name, clause), "s=%s" % _short(s), "result=%s" % _short(r))
        yield rec.record()
    # get_top_k_nonempty_lines(s, k)
    rec = _Rec("get_top_k_nonempty_lines", UTILS, bound + " x k in {1,2,3}")
    fn = getattr(U, "get_top_k_nonempty_lines", None)
    if fn is not None:
        for s in strings:
            for k in (1, 2, 3):
                rec.count((s, k))
                try:
                    r = fn(s, k=k)
                except Exception as ex:
                    rec.fail("get_top_k_nonempty_lines(s, k) returns for every str s (no exception)", "s=%s, k=%d" % (_short(s), k),
                             "raised %s: %s" % (type(ex).__name__, str(ex)[:160]))
                    continue
                want = [x for x in lines_of(s) if x and x[0] != "#"][:k]
                if not ((r is None and not want) or r == want):
                    rec.fail("get_top_k_nonempty_lines: the first k non-empty, non-comment stripped lines (None allowed when there is none)",
                             "s=%s, k=%d" % (_short(s), k), "result=%s" % _short(r))
        yield rec.record()
    lbound = "%d lists of lines (the strings above split at newlines + hand-written intent/action line lists)" % len(lists)
    for mod, name, clause, ok in list_specs:
        rec = _Rec(name, UTILS, lbound)
        fn = getattr(mod, name, None)
        if fn is None:
            rec.count("missing")
            rec.fail("%s exists" % name, "module %s" % UTILS, "no such function")
            yield rec.record()
            continue
        for l in lists:
            rec.count(tuple(l))
            try:
                r = fn(list(l))
            except Exception as ex:
                rec.fail("%s(lines) returns for every list of str (no exception)" % name, "lines=%s" % _short(l),
                         "raised %s: %s" % (type(ex).__name__, str(ex)[:160]))
                continue
            try:
                good = ok(l, r)
            except Exception:
                good = False
            if not good:
                rec.fail("%s: %s" % (name, clause), "lines=%s" % _short(l), "result=%s" % _short(r))
        yield rec.record()


# =============================================================================================
def native_checks(rng, tier):
    import warnings
    warnings.filterwarnings("ignore")
    for rec in _helper_checks(rng, tier):
        yield rec
    families = [(_literal_family, (m,)) for m in MODES] + [(_single_position_family, (m,)) for m in MODES] + \
               [(_mutation_family, (m,)) for m in MODES] + [(_multi_step_next_family, ()), (_v2_value_family, ("v2_value",)),
                                                            (_v2_value_family, ("v2_value_interpolated",)), (_v2_family, ())]
    for fam, args in families:
        try:
            yield fam(rng, tier, *args)
        except Exception as ex:  # the driver itself could not run (e.g. the configuration no longer loads)
            name = "LLMRails.generate[%s%s]" % (fam.__name__.strip("_"), "".join(": " + a for a in args))
            yield dict(function=name, evaluations=1, distinct=1, failures=1, bound="driver error",
                       failing=[_fail(name, GEN, "the scenario family can be set up and run against the repository (LLMRails with a scripted LLM)",
                                      "family %s%r" % (fam.__name__, args), "raised %s: %s" % (type(ex).__name__, str(ex)[:300]))])
