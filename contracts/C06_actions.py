"""C06 (actions) — "every unfinished action it started that is not shared with a still-running flow is sent exactly one Stop event; no
Stop is ever sent for an action that was never started, already stopped, or already finished".

Block contracts on the BODY of the loop `for action_uid in flow_state.action_uids` of _abort_flow and of _finish_flow
(nemoguardrails/colang/v2_x/runtime/statemachine.py) - the only places where a flow that ends lets go of its actions - with a ghost
trace `stops` of the events handed to `_generate_umim_event`, and a contract on Action.stop_event (flows.py):

   for one action of the flow, with status S and scope count C when the loop body starts:
     S in {STARTING, STARTED} and C == 1   =>  exactly one event is handed on, the action's own Stop (`Stop<name>`, action_uid == uid)
     S in {STARTING, STARTED} and C != 1   =>  nothing is handed on, the count drops by one (another flow still holds it), status kept
     S not in {STARTING, STARTED}          =>  nothing is handed on, the action object is untouched (never started / stopping / finished)
   (the loop around it only walks the flow's action uids: not under contract)

Assumed (listed in the evidence): A-UMIM - `_generate_umim_event(state, e)` appends to state.outgoing_events and lets only the action
registered under e.action_uid process the event (what `_update_action_status_by_event` / `Action.process_event` do for unique uids);
the action is registered in state.actions under its own uid (precondition); enum members are
modelled by their values."""
from pyvc.api import *

SM = "nemoguardrails/colang/v2_x/runtime/statemachine.py"
FLOWS = "nemoguardrails/colang/v2_x/runtime/flows.py"
classes({"State": [], "FlowState": [], "Action": []})
dataclass_of("Event", FLOWS)
dataclass_of("ActionEvent", FLOWS)
consts_from("nemoguardrails.colang.v2_x.runtime.flows", "ActionStatus", ["INITIALIZED", "STARTING", "STARTED", "STOPPING", "FINISHED"])

contract(
    FLOWS, "Action.stop_event", prop="C06",
    requires=["is_obj(self)", "has(self, 'name')", "is_str(self.name)", "has(self, 'uid')"],
    ensures=["is_inst(result, 'ActionEvent')", "fresh(result)", "result.action_uid is self.uid", "result.name == concat('Stop', self.name)"],
    raises={}, allocates=True,
)

opaque("_generate_umim_event", assigns=["arg0.outgoing_events", "val(arg0.actions, arg1.action_uid)"], log="stops", log_arg=1, raises=[],
       note="A-UMIM: appends the UMIM form of the event to state.outgoing_events and lets the action registered under the event's action_uid "
            "(only that one) process the event; the event is recorded in the ghost trace `stops`")

ACTIVE = "(old(action.status) == 'starting' or old(action.status) == 'started')"
BLOCK = "if action.status == ActionStatus.STARTING or action.status == ActionStatus.STARTED"

for _fn in ("_abort_flow", "_finish_flow", "slide"):          # (slide: the same step when an EndScope closes a scope that started actions)
    contract(
        SM, _fn, prop="C06",
        block=BLOCK,                   # the body of `for action_uid in flow_state.action_uids: action = state.actions[action_uid]`
        vars={"state": "V", "action": "V"},
        ghost_lists=["stops"],
        requires=["is_obj(state)", "has(state, 'actions')", "has(state, 'outgoing_events')", "is_dict(state.actions)", "is_list(state.outgoing_events)",
                  "state.outgoing_events is not stops",
                  "is_obj(action)", "action is not state", "has(action, 'status')", "has(action, 'flow_scope_count')", "is_int(action.flow_scope_count)",
                  "has(action, 'name')", "is_str(action.name)", "has(action, 'uid')", "is_str(action.uid)",
                  # the action is registered under its own uid (A-UMIM speaks about `state.actions[event.action_uid]`)
                  "has(state.actions, action.uid)", "val(state.actions, action.uid) is action"],
        ensures=[
            # last holder of an action that is starting / started: exactly one event, the action's own Stop
            "implies(%s and old(action.flow_scope_count) == 1, llen(stops) == 1 and is_inst(item(stops, 0), 'ActionEvent') and "
            "        item(stops, 0).action_uid is old(action.uid) and item(stops, 0).name == concat('Stop', old(action.name)))" % ACTIVE,
            # another flow still holds it: the count drops, nothing is sent, the status stays
            "implies(%s and old(action.flow_scope_count) != 1, llen(stops) == 0 and action.flow_scope_count == old(action.flow_scope_count) - 1 and "
            "        action.status is old(action.status))" % ACTIVE,
            # never started / already stopping / finished: nothing is sent, the action is untouched
            "implies(not %s, llen(stops) == 0 and unchanged(action))" % ACTIVE,
        ],
        raises={},
    )
