"""C10 — event processing terminates and a faulty flow fails alone (native, bounded side).

Contract on the event-processing API  LLMRails.process_events_async -> RuntimeV2_x.process_events
(nemoguardrails/colang/v2_x/runtime/runtime.py) -> run_to_completion / _advance_head_front
(nemoguardrails/colang/v2_x/runtime/statemachine.py), written from the property statement:

  T   processing ONE external event through the API returns: within a hard wall-clock limit, after at most
      `runtime.max_events` processed events (at most 2 + 2*L events for a program of L lines whose flows do not feed each
      other) and after at most 8*L*(processed events + 1) interpreter steps (calls of statemachine.slide; observed
      < 0.3*L*(events+1)) — for every program whose loops / recursive calls each contain a waiting statement, including
      activated flows that finish or fail immediately;
  E   no exception escapes the API;
  F   a runtime error in one flow's statement (bad expression, wrong type, invalid pattern) fails that flow (its
      instance ends `stopped`, nothing after the faulty statement is executed) and is reported as a ColangError event
      (observed by a catcher flow living in its own interaction loop);
  U   flows unrelated to the faulty one (not its parent/child; own or same interaction loop; waiting for the same
      external event or for later ones) react exactly once to the same event and to every later event.

The real interpreter is driven in a forked worker process: a call that exceeds the step / event bound is aborted from
inside (an exception raised by the counting hooks: a `watcher` of the runtime and a counting wrapper around
statemachine.slide), a call that exceeds the time limit is interrupted by SIGALRM, and a worker that does not answer is
killed and replaced.  Programs are generated; the oracle looks only at the returned output events / final flow states.
Expected reactions are computed from the fixture reactor flows alone (tiny fixed state machines), never from a model of
the interpreter."""
from pyvc.api import *

RT = "nemoguardrails/colang/v2_x/runtime/runtime.py"
SM = "nemoguardrails/colang/v2_x/runtime/statemachine.py"
PROP = "C10"


# =============================================================================================
# worker process: drives the real LLMRails / RuntimeV2_x
# =============================================================================================
class _SoftTimeout(BaseException):
    pass


class _StepBound(BaseException):
    pass


def _plain(v):
    if isinstance(v, (str, int, float, bool, type(None))):
        return v
    if isinstance(v, (list, tuple)):
        return [_plain(x) for x in v]
    if isinstance(v, dict):
        return {str(k): _plain(x) for k, x in v.items()}
    return repr(v)[:80]


_DROP = ("uid", "event_created_at", "source_uid", "action_uid")


def _worker_main(conn):
    """child process: answer scenario requests until None arrives"""
    import os
    import sys
    try:
        dn = os.open(os.devnull, os.O_WRONLY)
        os.dup2(dn, 1)
        os.dup2(dn, 2)
        repo = os.environ.get("VERIF_REPO", "/repo")
        if repo not in sys.path:
            sys.path.insert(0, repo)
        import logging
        logging.disable(logging.CRITICAL)
        import threading
        threading.excepthook = lambda args: None
        import asyncio
        import signal
        import time
        from nemoguardrails import LLMRails, RailsConfig
        from nemoguardrails.rails.llm import llmrails as _llmrails_mod
        from tests.utils import FakeLLM
        steps = [0, None]       # [interpreter steps (calls of statemachine.slide) of the current API call, steps allowed per processed event or None]
        counter = [0]           # events processed by process_events in the current API call
        try:
            from nemoguardrails.colang.v2_x.runtime import statemachine as _sm
            _orig_slide = _sm.slide

            def _counting_slide(*a, **k):
                steps[0] += 1
                if steps[1] is not None and steps[0] > steps[1] * (counter[0] + 1):
                    raise _StepBound("steps")
                return _orig_slide(*a, **k)

            _sm.slide = _counting_slide     # instrumentation only: the interpreter looks `slide` up in its module globals
            have_steps = True
        except Exception:
            have_steps = False
    except BaseException as ex:  # cannot even import: report and die
        try:
            conn.send(("import-error", "%s: %s" % (type(ex).__name__, str(ex)[:300])))
        finally:
            os._exit(3)

    def on_alarm(signum, frame):
        raise _SoftTimeout()

    signal.signal(signal.SIGALRM, on_alarm)
    conn.send(("ready",))

    def run(sc):
        """returns True when the worker may be reused"""
        soft = sc["soft_timeout"]
        reusable = True
        loop = asyncio.new_event_loop()
        asyncio.set_event_loop(loop)
        state = None
        try:
            try:
                signal.setitimer(signal.ITIMER_REAL, soft)
                cfg = RailsConfig.from_content(colang_content=sc["src"], yaml_content="colang_version: 2.x\n")
                rails = LLMRails(cfg, llm=FakeLLM(responses=[]))
                signal.setitimer(signal.ITIMER_REAL, 0)
            except BaseException as ex:
                signal.setitimer(signal.ITIMER_REAL, 0)
                conn.send(("build-error", "%s: %s" % (type(ex).__name__, str(ex)[:300])))
                return True
            if sc.get("max_events"):
                rails.runtime.max_events = sc["max_events"]
            for name in sc.get("actions", []):
                async def _act(**kwargs):
                    return 1
                rails.register_action(_act, name)
            budget = rails.runtime.max_events

            def watcher(event):
                counter[0] += 1
                if counter[0] > budget + 50:
                    raise _StepBound("events")

            rails.runtime.watchers.append(watcher)
            conn.send(("built", budget))
            for i, evs in enumerate(sc["calls"]):
                counter[0] = 0
                steps[0] = 0
                steps[1] = sc.get("step_factor")
                t0 = time.time()
                res = dict(status="ok")
                out = None
                try:
                    signal.setitimer(signal.ITIMER_REAL, soft)
                    try:
                        out, state = loop.run_until_complete(rails.process_events_async([dict(e) for e in evs], state))
                    finally:
                        signal.setitimer(signal.ITIMER_REAL, 0)
                except _SoftTimeout:
                    res = dict(status="timeout")
                except _StepBound as ex:
                    res = dict(status="stepbound-" + str(ex))
                except Exception as ex:
                    res = dict(status="escaped", error="%s: %s" % (type(ex).__name__, str(ex)[:200]))
                except BaseException as ex:
                    res = dict(status="escaped", error="%s: %s" % (type(ex).__name__, str(ex)[:200]))
                res["n"] = counter[0]
                res["steps"] = steps[0] if have_steps else None
                res["wall"] = time.time() - t0
                if out is not None:
                    res["out"] = [{k: _plain(v) for k, v in e.items() if k not in _DROP} for e in out[:1200]]
                    res["out_len"] = len(out)
                if res["status"] == "ok" and state is not None:
                    try:
                        res["flows"] = [(fs.flow_id, fs.status.value, fs.activated) for fs in state.flow_states.values()]
                    except Exception as ex:
                        res["flows_error"] = repr(ex)[:100]
                conn.send(("call", i, res))
                if res["status"] in ("timeout", "stepbound-steps", "stepbound-events"):
                    # interrupted in the middle: try to unwind the pending coroutine, otherwise retire this process
                    try:
                        signal.setitimer(signal.ITIMER_REAL, 2.0)
                        try:
                            tasks = [t for t in asyncio.all_tasks(loop) if not t.done()]
                            for t in tasks:
                                t.cancel()
                            if tasks:
                                loop.run_until_complete(asyncio.gather(*tasks, return_exceptions=True))
                        finally:
                            signal.setitimer(signal.ITIMER_REAL, 0)
                    except BaseException:
                        reusable = False
                    try:
                        if _llmrails_mod.process_events_semaphore.locked():
                            reusable = False
                    except Exception:
                        reusable = False
                    break
                if res["status"] != "ok":
                    break
            conn.send(("done", reusable))
        finally:
            try:
                signal.setitimer(signal.ITIMER_REAL, 0)
                loop.close()
            except BaseException:
                pass
        return reusable

    while True:
        try:
            req = conn.recv()
        except EOFError:
            break
        if req is None:
            break
        ok = True
        try:
            ok = run(req)
        except BaseException as ex:
            try:
                conn.send(("worker-error", "%s: %s" % (type(ex).__name__, str(ex)[:300])))
            except Exception:
                pass
            ok = False
        if not ok:
            break
    os._exit(0)


class _Pool:
    """one forked worker at a time; hard-kills it when it does not answer"""

    def __init__(self, soft_timeout, hard_timeout):
        import multiprocessing
        self.ctx = multiprocessing.get_context("fork")
        self.soft = soft_timeout
        self.hard = hard_timeout
        self.proc = None
        self.conn = None
        self.restarts = 0

    def _start(self):
        parent, child = self.ctx.Pipe()
        p = self.ctx.Process(target=_worker_main, args=(child,), daemon=True)
        p.start()
        child.close()
        self.proc, self.conn = p, parent
        if not parent.poll(120):
            self._kill()
            raise RuntimeError("C10 worker did not start within 120 s")
        msg = parent.recv()
        if msg[0] != "ready":
            self._kill()
            raise RuntimeError("C10 worker failed to import the repository: %r" % (msg,))

    def _kill(self):
        try:
            if self.proc is not None:
                self.proc.kill()
                self.proc.join(5)
        except Exception:
            pass
        try:
            if self.conn is not None:
                self.conn.close()
        except Exception:
            pass
        self.proc = self.conn = None

    def close(self):
        try:
            if self.conn is not None:
                self.conn.send(None)
                self.proc.join(2)
        except Exception:
            pass
        self._kill()

    def run(self, sc):
        """returns dict(build_error=..|None, calls=[res...], budget=int); a call that never answered gets status 'hard-timeout'"""
        if self.proc is None or not self.proc.is_alive():
            self._kill()
            self._start()
            self.restarts += 1
        sc = dict(sc, soft_timeout=sc.get("soft_timeout") or self.soft)
        result = dict(build_error=None, calls=[], budget=None)
        try:
            self.conn.send(sc)
            while True:
                if not self.conn.poll(self.hard if not sc.get("confirm") else sc["soft_timeout"] + 6.0):
                    result["calls"].append(dict(status="hard-timeout", n=None, wall=self.hard))
                    self._kill()
                    return result
                msg = self.conn.recv()
                if msg[0] == "build-error":
                    result["build_error"] = msg[1]
                    return result
                if msg[0] == "built":
                    result["budget"] = msg[1]
                elif msg[0] == "call":
                    result["calls"].append(msg[2])
                elif msg[0] == "done":
                    if not msg[1]:
                        self._kill()
                    return result
                elif msg[0] == "worker-error":
                    result["build_error"] = "worker error: " + msg[1]
                    self._kill()
                    return result
        except (EOFError, OSError, BrokenPipeError) as ex:
            result["calls"].append(dict(status="worker-died", n=None, wall=0, error=repr(ex)[:100]))
            self._kill()
            return result



# =============================================================================================
# program generators (fixtures: reactor flows, catcher, faulty flow) and the oracle
# =============================================================================================
ERRS = ['$undef_list[0]', '1 + "a"', 'len(5)', '1/0', 'foo(1)', '$undef_obj.attr', 'regex("(")', '{"a": 1}["b"]', 'int("x")']
INTERP_ERRS = ['$undef_list[0]', '1/0', 'len(5)', 'foo(1)', '$undef_obj.attr']
MATCH_ERRS = ERRS + ['less_than(2.5)']      # Other(v=1): comparing an int event value with a float bound is a runtime type error

# statement positions evaluated while the faulty flow advances (fault on the call that delivers the trigger event)
ADV_POSITIONS = {
    "assign": (["$y = E"], ERRS),
    "assign-interpolation": (['$y = "v {E}"'], INTERP_ERRS),
    "if-cond": (["if E", "  $y = 1"], ERRS),
    "elif-cond": (["if False", "  $y = 1", "elif E", "  $y = 2"], ERRS),
    "while-cond": (["while E", "  match Tick()"], ERRS),
    "send-arg": (["send Out(v=E)"], ERRS),
    "send-arg-interpolation": (['send Out(v="x {E}")'], INTERP_ERRS),
    "start-action-arg": (["start SomeBotAction(v=E)"], ERRS),
    "await-action-arg": (["await SomeBotAction(v=E)"], ERRS),
    "start-flow-arg": (["start helper $a=E"], ERRS),
    "await-flow-arg": (["await helper $a=E"], ERRS),
    "activate-flow-arg": (["activate helper $a=E"], ERRS),
    "return": (["return E"], ERRS),
    "log": (["log E"], ERRS),
    "print": (["print E"], ERRS),
    "priority": (["priority E"], ERRS),
    "send-undefined-ref": (["send $undef_ref.Stop()"], [""]),
    "match-undefined-ref": (["match $undef_ref.Finished()"], [""]),
    # errors of OTHER exception classes than the wrapped expression errors (a mistyped action event is a ColangSyntaxError)
    "match-bad-action-event": (["start SomeBotAction(v=1) as $r", "match $r.Done()"], [""]),
    "send-bad-action-event": (["start SomeBotAction(v=1) as $r", "send $r.Bogus()"], [""]),
}
# waiting statements whose pattern argument is evaluated when a candidate event (Other) arrives
MATCH_POSITIONS = {
    "match-arg": (["match Other(v=E)"], MATCH_ERRS),
    "match-arg-or-group": (["match Other(v=E) or Third()"], MATCH_ERRS),
    "match-arg-and-group": (["match Other(v=E) and Third()"], MATCH_ERRS),
    "when-arg": (["when Other(v=E)", "  $y = 1", "or when Third()", "  $y = 2"], MATCH_ERRS),
    "match-flow-arg": (["match helper(E).Finished()"], ERRS),
}
NESTINGS = ["top", "if-body", "else-body", "while-body"]
PREFIXES = [[], ["$p = 1"], ["$p = 1", "$q = $p + 1"], ['log "pre"'], ["$l = [1, 2]", "$m = $l[1]"]]


def _nest(lines, nesting):
    ind = ["  " + l for l in lines]
    if nesting == "top":
        return list(lines)
    if nesting == "if-body":
        return ["if True"] + ind
    if nesting == "else-body":
        return ["if False", "  $n = 0", "else"] + ind
    if nesting == "while-body":
        return ["while True"] + ind + ["  match Tick()"]
    raise ValueError(nesting)


def _flow(name, body, loop=None):
    head = (['@loop("%s")' % loop] if loop else []) + ["flow " + name]
    return "\n".join(head + ["  " + l for l in body])


REACTORS = {
    # name: (loop id or None for the loop of main, body)
    "good": ("g", ["match Go()", 'send Reacted(who="good", n=1)', "match Again()", 'send Reacted(who="good", n=2)']),
    "goodother": ("o", ["match Other()", 'send Reacted(who="other")']),
    "late": ("l", ["match Again()", 'send Reacted(who="late")']),
    "peer": (None, ["match Go()", 'send Reacted(who="peer")']),
    "boot": ("b", ["match Boot()", 'send Reacted(who="boot")']),
}
CATCHER = _flow("catcher", ["match ColangError() as $e", "send Caught(etype=$e.type)"], "c")
HELPER = "flow helper $a\n  match NeverHelper()"


def _expected_reactions(reactors, events):
    """model of the fixture reactor flows only (all activated, hence restarted after they finish)"""
    good_at = 0
    exp = []
    for ev in events:
        e = []
        t = ev["type"]
        if "good" in reactors:
            if t == "Go" and good_at == 0:
                e.append(("good", 1))
                good_at = 1
            elif t == "Again" and good_at == 1:
                e.append(("good", 2))
                good_at = 0
        if "goodother" in reactors and t == "Other":
            e.append(("other", None))
        if "late" in reactors and t == "Again":
            e.append(("late", None))
        if "peer" in reactors and t == "Go":
            e.append(("peer", None))
        if "boot" in reactors and t == "Boot":
            e.append(("boot", None))
        exp.append(e)
    return exp


def _fault_program(rng, position, nesting, err, prefix=None):
    """program with one erroneous expression at `position` of flow `bad` (+ unrelated reactors, a ColangError catcher)"""
    adv = position in ADV_POSITIONS
    templ = (ADV_POSITIONS if adv else MATCH_POSITIONS)[position][0]
    stmt = [l.replace("E", err) if "E" in l else l for l in templ]
    trig = rng.choice(["Go", "Go", "Again"])
    if prefix is None:
        prefix = rng.choice(PREFIXES)
    if position == "elif-cond" and nesting == "else-body":
        nesting = "if-body"      # (the Colang parser rejects an if/elif chain nested directly in an else body)
    mode = rng.choice(["activate", "activate", "launcher"])
    body = ["match %s()" % trig] + prefix + _nest(stmt, nesting) + ["send BadContinued()", "match NeverHappens()"]
    reactors = ["good", "goodother"] + [r for r in ("late", "peer") if rng.random() < 0.5]
    if position in ("match-bad-action-event", "send-bad-action-event"):
        # these positions START an action before the erroneous statement: `peer` (same interaction loop, sends an event on Go) would
        # compete with that action and legitimately lose or win the conflict (C05) - not what this oracle is about
        reactors = [r for r in reactors if r != "peer"]
    flows = [_flow("bad", body)]
    order = reactors + ["catcher", "bad"]
    rng.shuffle(order)
    if mode == "launcher":
        flows.append(_flow("launcher", ["start bad", "match NeverLauncher()"]))
        order[order.index("bad")] = "launcher"
    flows += [_flow(r, REACTORS[r][1], REACTORS[r][0]) for r in reactors] + [CATCHER, HELPER]
    flows.append(_flow("main", ["activate " + o for o in order] + ["match NeverMain()"]))
    src = "\n\n".join(flows) + "\n"
    rounds = 2
    events = [{"type": "Go"}, {"type": "Other", "v": 1}, {"type": "Again"}] * rounds
    # when is the fault expected?  (model of the fixture: bad waits for `trig`, then reaches the faulty statement)
    faults = []
    alive, armed = True, False
    for ev in events:
        f = False
        if alive:
            if not armed and ev["type"] == trig:
                if adv:
                    f = True
                else:
                    armed = True
            elif armed and ev["type"] == "Other" and position != "match-flow-arg":
                f = True
                armed = False
            if f and mode == "launcher":
                alive = False
        faults.append(f)
    return dict(src=src, calls=[[]] + [[e] for e in events], events=events, reactors=reactors, faults=faults,
                desc=dict(position=position, nesting=nesting, error=err, trigger=trig, prefix=prefix, started_by=mode, activation_order=order))


def _fmt_out(out, limit=6):
    def one(e):
        return e["type"] + "(" + ", ".join("%s=%r" % (k, v) for k, v in e.items() if k != "type") + ")"
    s = ", ".join(one(e) for e in out[:limit])
    if len(out) > limit:
        s += ", ... (%d events)" % len(out)
    return "[" + s + "]"


class _Record:
    def __init__(self, function, file, bound):
        self.function, self.file, self.bound = function, file, bound
        self.n = 0
        self.seen = set()
        self.failing = []
        self.nfail = 0
        self.hung = {}
        self.skipped = 0
        self.confirmed = 0

    def fail(self, clause, inputs, outcome, kind="post"):
        self.nfail += 1
        if len(self.failing) < 5:
            self.failing.append(dict(kind=kind, function=self.function, file=self.file, property_id=PROP, clause=clause,
                                     inputs=inputs, outcome=outcome[:700]))

    def record(self):
        b = self.bound + ("; every API call is bounded by: processed events <= max_events (2 + 2*L without event feedback), interpreter "
                          "steps <= %d*L*(events + 1), wall-clock limit" % STEPS_PER_LINE)
        if self.skipped:
            b += "; %d scenario(s) of a variant that had already hit the time limit were skipped" % self.skipped
        return dict(function=self.function, evaluations=self.n, distinct=len(self.seen), failures=self.nfail, failing=self.failing, bound=b)


CONFIRM_S = 3.0         # time limit of the confirmation re-run of a call that exceeded the step bound (such calls normally take < 0.1 s)
STEPS_PER_LINE = 8      # interpreter steps (calls of statemachine.slide) allowed per program line and processed event (observed: < 0.3)

CL_T = "[T] processing one event through process_events returns: within the hard time limit, after at most runtime.max_events processed " \
       "events (at most 2 + 2*L for a program of L lines without event feedback) and at most %d*L*(processed events + 1) " \
       "interpreter steps" % STEPS_PER_LINE
CL_E = "[E] no exception escapes LLMRails.process_events_async / RuntimeV2_x.process_events"
CL_F1 = "[F-reported] the runtime error of the flow's statement is reported as a ColangError event (seen by the catcher flow)"
CL_F2 = "[F-failed] the flow with the erroneous statement fails: its instance is `stopped` and nothing after the statement is executed"
CL_U = "[U] every unrelated flow reacts exactly once to the same event and to each later event it waits for"
CL_G = "[G] the generated program loads (RailsConfig.from_content / LLMRails)"


def _inputs(desc, src, events):
    return "%s events=%s program=%r" % (" ".join("%s=%r" % kv for kv in desc.items()), [_ev(e) for e in events], src)


def _ev(e):
    return e["type"] + "(" + ",".join("%s=%r" % (k, v) for k, v in e.items() if k != "type") + ")"


def _lines(src):
    return len([l for l in src.splitlines() if l.strip()])


def _check_call_basic(res, budget, nbound, factor):
    """termination / escape / step bounds of one API call; returns (clause, outcome) or None"""
    st = res["status"]
    if st in ("timeout", "hard-timeout", "worker-died"):
        return CL_T, "the call did not return within the time limit (%s after %.1f s, %s events processed so far)" % (st, res.get("wall", 0), res.get("n"))
    if st == "stepbound-events":
        return CL_T, "the call processed more than max_events + 50 = %d events without returning" % (budget + 50)
    if st == "stepbound-steps":
        return CL_T, "the call executed more than %d interpreter steps after %s processed event(s) without returning" % (
            factor * ((res.get("n") or 0) + 1), res.get("n"))
    if st == "escaped":
        return CL_E, "exception escaped: %s" % res.get("error")
    if res["n"] is not None and res["n"] > nbound:
        return CL_T, "the call processed %d events, bound %d" % (res["n"], nbound)
    return None


def _check_reactions(out, expected):
    got = {}
    for e in out:
        if e["type"] == "Reacted":
            k = (e.get("who"), e.get("n"))
            got[k] = got.get(k, 0) + 1
    want = {k: 1 for k in expected}
    if got != want:
        missing = sorted(str(k) for k in want if got.get(k, 0) == 0)
        extra = sorted("%s x%d" % (k, v) for k, v in got.items() if v != want.get(k, 0) and v > 0)
        return "reactions of the unrelated flows: missing %s, unexpected/duplicated %s" % (missing, extra)
    return None


def _run_scenario(pool, rec, sc, variant, check_reactions=True, feedback=False):
    """run one generated program, one API call per event, and evaluate T / E / F / U on what was observed"""
    rec.n += 1
    rec.seen.add(_inputs(sc["desc"], "", []))
    L = _lines(sc["src"])
    factor = STEPS_PER_LINE * L
    req = dict(src=sc["src"], calls=sc["calls"], max_events=sc.get("max_events"), actions=sc.get("actions", []), step_factor=factor)
    r = pool.run(req)
    inputs = _inputs(sc["desc"], sc["src"], sc["events"])
    if r["build_error"]:
        rec.fail(CL_G, inputs, r["build_error"], kind="generator")
        return
    budget = r["budget"] or 500
    nbound = budget if feedback else 2 + 2 * L
    expected = _expected_reactions(sc["reactors"], sc["events"])
    faults = sc.get("faults")
    nfaults = 0
    for i, res in enumerate(r["calls"]):
        what = "call %d (%s)" % (i, "start of main" if i == 0 else _ev(sc["events"][i - 1]))
        bad = _check_call_basic(res, budget, nbound, factor)
        if bad:
            outcome = "%s: %s" % (what, bad[1])
            if res["status"] in ("timeout", "hard-timeout"):
                rec.hung[variant] = rec.hung.get(variant, 0) + 1
            if res["status"] == "stepbound-steps" and rec.confirmed < 1:
                # confirm the first one per record without the step limit: does the call return at all?
                rec.confirmed += 1
                r2 = pool.run(dict(req, step_factor=None, calls=sc["calls"][:i + 1], soft_timeout=CONFIRM_S, confirm=True))
                last = (r2["calls"] or [dict(status="?")])[-1]
                if last["status"] in ("timeout", "hard-timeout"):
                    outcome += "; re-run without the step limit: the call did not return within %.0f s either" % CONFIRM_S
                else:
                    outcome += "; re-run without the step limit: %s after %s steps / %s events" % (last["status"], last.get("steps"), last.get("n"))
            rec.fail(bad[0], inputs, outcome)
            return
        if i == 0:
            continue
        out = res.get("out") or []
        problems = []
        if check_reactions:
            u = _check_reactions(out, expected[i - 1])
            if u:
                problems.append((CL_U, u))
        if faults is not None:
            if any(e["type"] == "BadContinued" for e in out):
                problems.append((CL_F2, "the faulty flow continued after the erroneous statement (BadContinued was sent)"))
            if faults[i - 1]:
                nfaults += 1
                if not any(e["type"] == "Caught" for e in out):
                    problems.append((CL_F1, "no ColangError event was reported"))
            stopped = len([f for f in res.get("flows", []) if f[0] == "bad" and f[1] == "stopped"])
            if stopped < nfaults:
                problems.append((CL_F2, "%d faulty statement(s) reached, but only %d instance(s) of flow `bad` are stopped (flow states: %s)" % (
                    nfaults, stopped, " ".join("%s:%s" % (f[0], f[1]) for f in res.get("flows", []) if f[0] in ("bad", "main", "launcher")))))
        if problems:
            rec.fail(problems[0][0], inputs, "%s -> output %s: %s" % (what, _fmt_out(out), "; ".join(p[1] for p in problems)))
            return


def _fault_checks(pool, rng, tier):
    quick = tier != "thorough"
    hang_cap = 1 if quick else 2
    for table, file in ((ADV_POSITIONS, SM), (MATCH_POSITIONS, SM)):
        for position, (templ, errs) in table.items():
            rec = _Record("process_events[fault@%s]" % position, file, "")
            plan = []
            if quick:
                plan.append(("top", rng.choice(errs), []))      # the faulty statement directly follows the trigger match
                for nesting in NESTINGS:
                    plan.append((nesting, rng.choice(errs), None))
            else:
                for nesting in NESTINGS:
                    for e in errs:
                        plan += [(nesting, e, []), (nesting, e, None)]
            for nesting, err, prefix in plan:
                sc = _fault_program(rng, position, nesting, err, prefix)
                if rec.hung.get(position, 0) >= hang_cap:
                    rec.skipped += 1
                    continue
                _run_scenario(pool, rec, sc, position)
            rec.bound = ("erroneous expression (%d kinds: bad expression / wrong type / invalid pattern) at statement position `%s` of one flow, "
                         "nested at top level / in an if body / in an else body / in a while body with a waiting statement, after 0-2 "
                         "harmless statements, flow activated by main or started by an activated launcher, random activation order; 2-4 "
                         "unrelated reactor flows in their own (or the same) interaction loop and a ColangError catcher; events Go, "
                         "Other, Again x 2 rounds, one event per API call; %s" % (
                             len(errs), position, "%d sampled programs" % len(plan) if quick else "all nestings x all error kinds x 2 layouts (%d programs)" % len(plan)))
            yield rec.record()



# ---------------------------------------------------------------------------------------------
# termination families
# ---------------------------------------------------------------------------------------------
def _feedback_program(rng, style, k, own_loops, budget):
    """flows that feed each other through outgoing events; every loop / recursive call contains a waiting statement"""
    flows, names = [], []
    actions = []
    for i in range(k):
        a, b = "Ev%d" % i, "Ev%d" % ((i + 1) % k)
        if style == "while-loop":
            body = ["while True", "  match %s()" % a, "  send %s()" % b]
        elif style == "activated-restart":
            body = ["match %s()" % a, "send %s()" % b]
        elif style == "recursion":
            body = ["match %s()" % a, "send %s()" % b, "await ring%d" % i]
        elif style == "local-action-loop":
            body = ["match %s()" % a, "while True", "  await TickAction()"]
            actions = ["TickAction"]
        names.append("ring%d" % i)
        flows.append(_flow("ring%d" % i, body, ("r%d" % i) if own_loops else None))
    reactors = ["good"] + (["late"] if rng.random() < 0.5 else [])
    order = names + reactors
    rng.shuffle(order)
    flows += [_flow(r, REACTORS[r][1], REACTORS[r][0]) for r in reactors]
    flows.append(_flow("main", ["activate " + o for o in order] + ["match NeverMain()"]))
    events = [{"type": "Ev0"}, {"type": "Go"}, {"type": "Ev0"}, {"type": "Again"}, {"type": "Go"}]
    return dict(src="\n\n".join(flows) + "\n", calls=[[]] + [[e] for e in events], events=events, reactors=reactors, max_events=budget,
                actions=actions, desc=dict(family="event-feedback", style=style, ring=k, own_loops=own_loops, max_events=budget or "default",
                                           activation_order=order))


def _feedback_checks(pool, rng, tier):
    quick = tier != "thorough"
    rec = _Record("process_events[termination:event-feedback]", RT, "")
    styles = ["while-loop", "activated-restart", "recursion", "local-action-loop"]
    plan = []
    if quick:
        plan.append(("while-loop", rng.choice([1, 2, 3]), False, None))      # one program with the default budget (500 events)
        for st in styles:
            for k in ((1,) if st == "local-action-loop" else (1, 2, 3)):
                plan.append((st, k, rng.random() < 0.5, rng.choice([40, 90, 150])))
    else:
        for st in styles:
            for k in ((1,) if st == "local-action-loop" else (1, 2, 3)):
                for own in (False, True):
                    for b in (None, 40, 150):
                        plan.append((st, k, own, b))
    for st, k, own, b in plan:
        if rec.hung.get(st, 0) >= (1 if quick else 2):
            rec.skipped += 1
            continue
        _run_scenario(pool, rec, _feedback_program(rng, st, k, own, b), st, feedback=True)
    rec.bound = ("rings of 1-3 activated flows feeding each other through outgoing events (while-loop with match+send, activated flows that "
                 "restart, recursive await after a match, a while loop awaiting a locally executed action), in one or separate interaction "
                 "loops, max_events default (500) or 40/90/150; events Ev0, Go, Ev0, Again, Go one per API call; %d programs; hard limit "
                 "%.0f s per call" % (len(plan), pool.soft))
    yield rec.record()


INTERNAL_VARIANTS = {
    "activated-flow-awaiting-a-finishing-flow": ["flow spin\n  match Kick()\n  activate again\n  match NeverSpin()", "flow again\n  await quick",
                                                 "flow quick\n  $x = 1"],
    "while-start-then-match-finished": ["flow spin\n  match Kick()\n  while True\n    start quick\n    match FlowFinished(flow_id=\"quick\")",
                                        "flow quick\n  $x = 1"],
    "while-await-flow": ["flow spin\n  match Kick()\n  while True\n    await quick", "flow quick\n  $x = 1"],
    "recursive-await-after-match": ["flow spin\n  match Kick()\n  await rec", "flow rec\n  start quick\n  match FlowFinished(flow_id=\"quick\")\n  await rec",
                                    "flow quick\n  $x = 1"],
}


def _internal_checks(pool, rng, tier):
    quick = tier != "thorough"
    rec = _Record("process_events[termination:internal-feedback]", SM, "")
    names = list(INTERNAL_VARIANTS)
    rng.shuffle(names)
    for v in names:
        if sum(rec.hung.values()) >= (1 if quick else 3):
            rec.skipped += 1
            continue
        reactors = ["good"]
        order = ["spin", "good"]
        rng.shuffle(order)
        flows = list(INTERNAL_VARIANTS[v]) + [_flow(r, REACTORS[r][1], REACTORS[r][0]) for r in reactors]
        flows.append(_flow("main", ["activate " + o for o in order] + ["match NeverMain()"]))
        events = [{"type": "Go"}, {"type": "Kick"}, {"type": "Again"}, {"type": "Go"}]
        sc = dict(src="\n\n".join(flows) + "\n", calls=[[]] + [[e] for e in events], events=events, reactors=reactors,
                  desc=dict(family="internal-feedback", variant=v, activation_order=order))
        _run_scenario(pool, rec, sc, v)
    rec.bound = ("4 programs whose loop / recursive call / activated flow contains a waiting statement (await of a flow, match of FlowFinished) that is satisfied by "
                 "internal events of the same processing step; events Go, Kick, Again, Go; hard limit %.0f s per call" % pool.soft)
    yield rec.record()


IMMEDIATE_VARIANTS = {
    # name: (fails?, body of the activated flow `imm`, extra flows)
    "finish:assign": (False, ["$x = 1"], []),
    "finish:return": (False, ["return 1"], []),
    "finish:send": (False, ["send Out()"], []),
    "finish:start-action": (False, ["start SomeBotAction()"], []),
    "finish:log": (False, ['log "x"'], []),
    "finish:pass": (False, ["pass"], []),
    "finish:if": (False, ["if True", "  $x = 1"], []),
    "finish:start-flow": (False, ["start helper $a=1"], []),
    "fail:assign-error": (True, ["$x = 1/0"], []),
    "fail:abort": (True, ["abort"], []),
    "fail:if-cond-error": (True, ["if $undef_list[0]", "  $x = 1"], []),
    "fail:send-arg-error": (True, ["send Out(v=1/0)"], []),
    "fail:error-after-send": (True, ["send Out()", "$x = 1/0"], []),
    "fail:match-undefined-ref": (True, ["match $undef_ref.Finished()"], []),
    "fail:await-failing-child": (True, ["await child"], ["flow child\n  $x = 1/0"]),
    "fail:start-failing-child": (True, ["start child", "match NeverImm()"], ["flow child\n  $x = 1/0"]),
}


def _immediate_checks(pool, rng, tier):
    quick = tier != "thorough"
    rec = _Record("process_events[termination:immediate-activated]", SM, "")
    plan = [(v, m) for v in IMMEDIATE_VARIANTS for m in ("main", "host")]
    rng.shuffle(plan)
    for v, mode in plan:
        fails, body, extra = IMMEDIATE_VARIANTS[v]
        variant = ("fail" if fails else "finish", mode)
        if rec.hung.get(variant, 0) >= (1 if quick else 3):
            rec.skipped += 1
            continue
        reactors = ["good", "boot"] + (["late"] if rng.random() < 0.5 else [])
        order = reactors + ["catcher", "imm"]
        rng.shuffle(order)
        flows = [_flow("imm", body)] + list(extra)
        if mode == "host":
            flows.append(_flow("host", ["match Boot()", "activate imm", "match NeverHost()"], "h"))
            order[order.index("imm")] = "host"
        flows += [_flow(r, REACTORS[r][1], REACTORS[r][0]) for r in reactors] + [CATCHER, HELPER]
        flows.append(_flow("main", ["activate " + o for o in order] + ["match NeverMain()"]))
        events = [{"type": "Boot"}, {"type": "Go"}, {"type": "Again"}, {"type": "Go"}]
        sc = dict(src="\n\n".join(flows) + "\n", calls=[[]] + [[e] for e in events], events=events, reactors=reactors,
                  desc=dict(family="immediate-activated", variant=v, activated_by=mode, activation_order=order))
        # a flow that fails while main activates it legitimately takes main (its parent) down; then only termination is checked
        _run_scenario(pool, rec, sc, variant, check_reactions=(not fails) or mode == "host")
    rec.bound = ("%d bodies of an activated flow without any waiting statement (8 that finish immediately, 8 that fail immediately: runtime "
                 "error, abort, failing child) x activated by main at start / by a separate host flow on event Boot; events Boot, Go, Again, "
                 "Go; hard limit %.0f s per call; in the quick tier a variant class (fail|finish x main|host) is abandoned after its first "
                 "time-out" % (len(IMMEDIATE_VARIANTS), pool.soft))
    yield rec.record()


def native_checks(rng, tier):
    quick = tier != "thorough"
    pool = _Pool(10.0 if quick else 30.0, 20.0 if quick else 50.0)
    try:
        for gen in (_feedback_checks, _immediate_checks, _internal_checks, _fault_checks):
            for rec in gen(pool, rng, tier):
                yield rec
    finally:
        pool.close()
