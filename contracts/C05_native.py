"""C05 — competing flows: exactly one most-specific action wins per interaction loop (native / bounded side).

Statement (oracle source): when several flows in the same interaction loop react to one event by trying to start
different actions, exactly one of them proceeds - one whose match was most specific (fewest unmentioned parameters,
scaled by a declared flow priority), chosen arbitrarily among exact ties - and all the others fail; flows that try to
start an identical action all proceed and that action is started once.  Flows in different interaction loops never
compete, and a flow whose match did not fit the event is left untouched.

The specificity measure is the documented one (docs/colang_2/language_reference/more-on-flows.rst, "Flow Conflict
Resolution Prioritization"): factor 0.9 per event parameter the match does not mention, multiplied by the flow's
`priority`.  All competitors of one scenario match the *same* event, so the ranking only depends on
priority * 0.9^(-mentioned); it is computed here with exact rationals - nothing of the interpreter is re-implemented.

Three oracle families, all on the real interpreter (nemoguardrails/colang/v2_x/runtime/statemachine.py):
  (1) generated programs, observed from outside (outgoing events, status / head position of the flow instances), every
      outcome of the tie-break enumerated by scripting `random.choice` inside the state machine module; triggers are
      external events, internal flow events of a shared helper flow, and two-step chains (one helper per competitor,
      ranked left to right as documented);
  (2) the same scenarios with real `random.seed(k)` tie-breaks;
  (3) a contract monitor around `_resolve_action_conflicts` itself, on real heads whose order and score chains are
      replaced by generated ones (all permutations of the head order / random score vectors)."""
from pyvc.api import *

SM = "nemoguardrails/colang/v2_x/runtime/statemachine.py"

# ---------------------------------------------------------------------------------------------
# scenario model
# ---------------------------------------------------------------------------------------------
# trigger families: the external event that is sent, the event the competitors match on, and the parameters a
# competitor may mention (name -> (colang literal of the right value, colang literal of a wrong value, is_string))
_TRIGGERS = {
    # UMIM action event matched directly
    "umim": dict(
        event={"type": "UtteranceUserActionFinished", "final_transcript": "Go", "k1": 1, "k2": "x"},
        head="UtteranceUserAction.Finished", fixed=[],
        params={"final_transcript": ('"Go"', '"Stop"', True), "k1": ("1", "2", False), "k2": ('"x"', '"y"', True)},
        helpers="", main=[]),
    # plain (non action) external event matched directly
    "plain": dict(
        event={"type": "Ping", "a": 1, "b": "two", "c": 3},
        head="Ping", fixed=[],
        params={"a": ("1", "5", False), "b": ('"two"', '"three"', True), "c": ("3", "4", False)},
        helpers="", main=[]),
    # internal event: a helper flow finishes on the external event, competitors wait for its FlowFinished
    "finished": dict(
        event={"type": "Ping", "a": 1},
        head="FlowFinished", fixed=['flow_id="h"'],
        params={"p": ("7", "8", False), "q": ('"x"', '"y"', True), "r": ("9", "1", False)},
        helpers='flow h $p $q $r\n  match Ping()\n\n', main=['start h 7 "x" 9']),
    # internal event: a helper flow is started on the external event, competitors wait for its FlowStarted
    "started": dict(
        event={"type": "Ping", "a": 1},
        head="FlowStarted", fixed=['flow_id="h"'],
        params={"p": ("7", "8", False), "q": ('"x"', '"y"', True), "r": ("9", "1", False)},
        helpers='flow h $p $q $r\n  match NeverHappens()\n\nflow s\n  match Ping()\n  start h 7 "x" 9\n  match NeverHappens()\n\n',
        main=["start s"]),
    # internal event: a helper flow fails on the external event, competitors wait for its FlowFailed
    "failed": dict(
        event={"type": "Ping", "a": 1},
        head="FlowFailed", fixed=['flow_id="h"'],
        params={"p": ("7", "8", False), "q": ('"x"', '"y"', True), "r": ("9", "1", False)},
        helpers='flow h $p $q $r\n  match Ping()\n  abort\n\n', main=['start h 7 "x" 9']),
    # chain of matches: every competitor waits for the FlowFinished of its OWN helper flow, the helpers match the external
    # event with different specificity / priority.  `mention`/`forms`/`hpriority` of a competitor describe its helper's match;
    # the documented ranking compares the score chains left to right: (helper's match, competitor's match)
    "chain": dict(
        event={"type": "Ping", "a": 1, "b": "two", "c": 3},
        head="Ping", fixed=[],
        params={"a": ("1", "5", False), "b": ('"two"', '"three"', True), "c": ("3", "4", False)},
        helpers="", main=[]),
}
_PRIORITIES = [None, None, "1.0", "0.8", "0.5", "0.3"]      # no (k, p) / (k', p') pair ties in exact arithmetic unless k == k', p == p'
_LOOPS = [None, None, "L1", "L2"]
_ACT_KINDS = ["ustart", "ustart", "uawait", "gstart", "send"]
_ACT_VALUES = ["A", "B", "C"]


def _act_key(act):
    """identity of the action a flow tries to start (what the interpreter must treat as 'identical')"""
    if act is None:
        return None
    kind, x = act
    return {"ustart": "U", "uawait": "U", "gstart": "G", "send": "S"}[kind], x


def _act_stmt(act):
    kind, x = act
    if kind == "ustart":
        return 'start UtteranceBotAction(script="%s")' % x
    if kind == "uawait":
        return 'await UtteranceBotAction(script="%s")' % x
    if kind == "gstart":
        return 'start GestureBotAction(gesture="%s")' % x
    return 'send Signal(v="%s")' % x


def _gen_flow(rng, trig, name, force=None):
    t = _TRIGGERS[trig]
    pnames = sorted(t["params"])
    mention = [p for p in pnames if rng.random() < 0.5]
    forms = {}
    for p in mention:
        forms[p] = "regex" if (t["params"][p][2] and rng.random() < 0.25) else "value"
    fits = True
    if rng.random() < 0.15:
        if not mention:
            mention = [rng.choice(pnames)]
        forms[rng.choice(mention)] = "wrong"
        forms = {p: forms.get(p, "value") for p in mention}
        fits = False
    act = None if rng.random() < 0.08 else (rng.choice(_ACT_KINDS), rng.choice(_ACT_VALUES))
    f = dict(name=name, loop=rng.choice(_LOOPS), loop_priority=rng.choice([None, None, None, 5, -3]),
             priority=rng.choice(_PRIORITIES), hpriority=rng.choice(_PRIORITIES) if trig == "chain" else None,
             mention=mention, forms=forms, fits=fits, act=act, how=rng.choice(["start", "start", "activate"]))
    if force:
        f.update(force)
    return f


def _flow_src(trig, f):
    t = _TRIGGERS[trig]
    args = list(t["fixed"])
    for p in f["mention"]:
        right, wrong, _ = t["params"][p]
        form = f["forms"][p]
        args.append("%s=%s" % (p, right if form == "value" else wrong if form == "wrong" else 'regex(".*")'))
    lines = []
    if trig == "chain":
        lines.append("flow h_%s" % f["name"])
        if f.get("hpriority") is not None:
            lines.append("  priority %s" % f["hpriority"])
        lines.append("  match %s(%s)\n" % (t["head"], ", ".join(args)))
    if f["loop"]:
        if f["loop_priority"] is not None:
            lines.append('@loop("%s", priority=%d)' % (f["loop"], f["loop_priority"]))
        else:
            lines.append('@loop("%s")' % f["loop"])
    lines.append("flow %s" % f["name"])
    if f["priority"] is not None:
        lines.append("  priority %s" % f["priority"])
    if trig == "chain":
        lines.append('  match FlowFinished(flow_id="h_%s")' % f["name"])
    else:
        lines.append("  match %s(%s)" % (t["head"], ", ".join(args)))
    if f["act"] is not None:
        lines.append("  " + _act_stmt(f["act"]))
    lines.append("  match NeverHappens()")
    return "\n".join(lines) + "\n\n"


def _program(trig, flows):
    t = _TRIGGERS[trig]
    src = t["helpers"] + "".join(_flow_src(trig, f) for f in flows)
    src += "flow main\n" + "".join("  %s %s\n" % (f["how"], f["name"]) for f in flows)
    if trig == "chain":
        src += "".join("  start h_%s\n" % f["name"] for f in flows)
    src += "".join("  %s\n" % m for m in t["main"]) + "  match NeverHappens()\n"
    return src


def _score(f, trig=None):
    """documented specificity x priority, up to the factor common to all competitors of one event (exact rational)"""
    from fractions import Fraction
    pr = Fraction(f["priority"]) if f["priority"] is not None else Fraction(1)
    if trig == "chain":
        hp = Fraction(f["hpriority"]) if f.get("hpriority") is not None else Fraction(1)
        return (hp * Fraction(10, 9) ** len(f["mention"]), pr)
    return (pr * Fraction(10, 9) ** len(f["mention"]),)


def _describe(trig, flows, extra=""):
    parts = []
    for f in flows:
        t = _TRIGGERS[trig]
        args = list(t["fixed"]) + ["%s=%s" % (p, {"value": t["params"][p][0], "wrong": t["params"][p][1], "regex": "regex"}[f["forms"][p]])
                                   for p in f["mention"]]
        m = "%s(%s)" % (t["head"], ",".join(args))
        if trig == "chain":
            m = 'FlowFinished(flow_id="h_%s") of helper h_%s[prio=%s match %s]' % (f["name"], f["name"], f.get("hpriority") or "-", m)
        parts.append("%s[%s loop=%s prio=%s match %s -> %s]" % (
            f["name"], f["how"], f["loop"] or "main", f["priority"] or "-", m,
            _act_stmt(f["act"]) if f["act"] else "no action"))
    return "event %r; flows in start order: %s%s" % (_TRIGGERS[trig]["event"], "; ".join(parts), extra)


# ---------------------------------------------------------------------------------------------
# driving the interpreter
# ---------------------------------------------------------------------------------------------
class _ScriptedRandom:
    """stands in for the `random` module inside statemachine.py: `choice` returns the element selected by a
    mixed-radix script (so that all tie-break outcomes can be enumerated); everything else is the real module"""

    def __init__(self, k):
        import random as _r
        self._r = _r
        self.k = k
        self.radix = []

    def choice(self, seq):
        seq = list(seq)
        base = 1
        for n in self.radix:
            base *= n
        self.radix.append(len(seq))
        return seq[(self.k // base) % len(seq)]

    def __getattr__(self, name):
        return getattr(self._r, name)


_CFG_CACHE = {}


def _fresh_state(src):
    """a fresh State for the program (flow configs are parsed once per program and deep-copied)"""
    import copy
    from native import v2
    from nemoguardrails.colang.v2_x.runtime.flows import State
    from nemoguardrails.colang.v2_x.runtime.runtime import create_flow_configs_from_flow_list
    from nemoguardrails.colang.v2_x.runtime.statemachine import initialize_state
    if src not in _CFG_CACHE:
        if len(_CFG_CACHE) > 8:
            _CFG_CACHE.clear()
        _CFG_CACHE[src] = v2.parse(src)
    config = create_flow_configs_from_flow_list(copy.deepcopy(_CFG_CACHE[src]))
    state = State(flow_states=[], flow_configs=config)
    initialize_state(state)
    return state


def _snapshot(state, names):
    """flow name -> list of (uid, status name, sorted head positions) of its instances"""
    snap = {n: [] for n in names}
    for fs in state.flow_states.values():
        if fs.flow_id in snap:
            snap[fs.flow_id].append((fs.uid, fs.status.name, tuple(sorted(h.position for h in fs.heads.values()))))
    return snap


def _started_actions(out):
    res = []
    for o in out:
        t = o.get("type")
        if t == "StartUtteranceBotAction":
            res.append((("U", o.get("script")), o.get("action_uid")))
        elif t == "StartGestureBotAction":
            res.append((("G", o.get("gesture")), o.get("action_uid")))
        elif t == "Signal":
            res.append((("S", o.get("v")), None))
        elif t and not t.startswith("Stop"):
            res.append((("?", t), None))
    return res


def _run(trig, flows, tie):
    """one run of the scenario.  tie = ("script", k) | ("seed", k).  Returns dict(problem=None|text, radix=[...])"""
    import random
    from native import v2
    import nemoguardrails.colang.v2_x.runtime.statemachine as sm
    src = _program(trig, flows)
    names = [f["name"] for f in flows]
    real_random = sm.random
    scripted = None
    if tie[0] == "script":
        scripted = _ScriptedRandom(tie[1])
        sm.random = scripted
    else:
        random.seed(tie[1])
    try:
        state = _fresh_state(src)
        state, out = v2.step(state, v2.START_MAIN)
        if out:
            return dict(problem="events %r emitted before the triggering event" % [o.get("type") for o in out], radix=[])
        before = _snapshot(state, names)
        for n in names:
            if len(before[n]) != 1 or before[n][0][1] != "STARTED" or len(before[n][0][2]) != 1:
                return dict(problem="flow %s is not waiting with one head after start: %r" % (n, before[n]), radix=[])
        if scripted is not None:
            scripted.radix = []
        state, out = v2.step(state, dict(_TRIGGERS[trig]["event"]))
        after = _snapshot(state, names)
        problem = _judge(flows, before, after, out, trig)
        if problem is None:
            problem = _phase2(state, flows, before, after, out)
        return dict(problem=problem, radix=list(scripted.radix) if scripted is not None else [])
    except Exception as ex:  # an exception escaping the interpreter is a finding of its own
        return dict(problem="raised %s: %s" % (type(ex).__name__, str(ex)[:160]), radix=[])
    finally:
        sm.random = real_random


def _fate(before, after, name):
    uid, _, pos0 = before[name][0]
    inst = [i for i in after[name] if i[0] == uid]
    if not inst:
        return "vanished", None
    _, status, pos = inst[0]
    if status in ("STOPPED", "STOPPING"):
        return "failed", pos
    if status == "STARTED" and pos == pos0:
        return "untouched", pos
    if status == "STARTED" and len(pos) == 1 and pos[0] > pos0[0]:
        return "proceeded", pos
    return "other(%s,%r->%r)" % (status, pos0, pos), pos


def _judge(flows, before, after, out, trig=None):
    """the oracle of the statement; returns None or a description of the violation"""
    fates = {f["name"]: _fate(before, after, f["name"])[0] for f in flows}
    groups = {}
    for f in flows:
        n = f["name"]
        if not f["fits"]:
            if fates[n] != "untouched":
                return "flow %s did not fit the event but is %s (expected: left untouched)" % (n, fates[n])
            if len(after[n]) != 1:
                return "flow %s did not fit the event but has %d instances afterwards" % (n, len(after[n]))
        elif f["act"] is None:
            if fates[n] != "proceeded":
                return "flow %s fits the event and starts no action but is %s (expected: proceeds)" % (n, fates[n])
        else:
            groups.setdefault(f["loop"] or "main", []).append(f)
    expected_started = []
    for loop in sorted(groups):
        g = groups[loop]
        bad = [f["name"] for f in g if fates[f["name"]] not in ("proceeded", "failed")]
        if bad:
            return "loop %s: competing flow(s) %s neither proceeded nor failed: %r" % (loop, bad, {n: fates[n] for n in bad})
        winners = [f for f in g if fates[f["name"]] == "proceeded"]
        if not winners:
            return "loop %s: no competing flow proceeded (fates %r)" % (loop, {f["name"]: fates[f["name"]] for f in g})
        keys = sorted({_act_key(f["act"]) for f in winners})
        if len(keys) != 1:
            return "loop %s: flows with different actions proceeded together: %r" % (
                loop, {f["name"]: _act_key(f["act"]) for f in winners})
        lost_same = [f["name"] for f in g if _act_key(f["act"]) == keys[0] and fates[f["name"]] != "proceeded"]
        if lost_same:
            return "loop %s: flow(s) %s start the identical action %r as the winner but failed" % (loop, lost_same, keys[0])
        best = max(_score(f, trig) for f in g)
        if not any(_score(f, trig) == best for f in winners):
            return "loop %s: action %r won (flows %s) but the most specific match (x priority) is that of %s" % (
                loop, keys[0], [f["name"] for f in winners], [f["name"] for f in g if _score(f, trig) == best])
        expected_started.append(keys[0])
    got = sorted(k for k, _ in _started_actions(out))
    if got != sorted(expected_started):
        return "actions started %r, expected exactly one per competing loop: %r" % (got, sorted(expected_started))
    return None


def _phase2(state, flows, before, after, out):
    """identical awaited actions really are one shared action: its Finished event releases every flow awaiting it"""
    from native import v2
    names = [f["name"] for f in flows]
    for key, uid in _started_actions(out):
        if key[0] != "U" or uid is None:
            continue
        state, out2 = v2.step(state, {"type": "UtteranceBotActionFinished", "action_uid": uid, "final_script": key[1],
                                      "is_success": True})
        later = _snapshot(state, names)
        if _started_actions(out2):
            return "finishing action %r started further actions %r" % (key, _started_actions(out2))
        for f in flows:
            n = f["name"]
            if not f["fits"] or f["act"] is None:
                continue
            was = _fate(before, after, n)
            now = [i for i in later[n] if i[0] == before[n][0][0]]
            if was[0] != "proceeded" or not now:
                continue
            moved = now[0][1] == "STARTED" and now[0][2] > was[1]
            # loops are disjoint per key only if the same script is not started in two loops at once; then only check "some"
            same_key_elsewhere = sum(1 for k, _ in _started_actions(out) if k == key) > 1
            if f["act"][0] == "uawait" and _act_key(f["act"]) == key and not same_key_elsewhere and not moved:
                return "flow %s awaits the shared action %r but did not continue when it finished (%r)" % (n, key, now[0])
            if f["act"][0] != "uawait" and now[0][2] != was[1]:
                return "flow %s moved on the Finished event of an action it does not wait for" % n
    return None


# ---------------------------------------------------------------------------------------------
# scenario families
# ---------------------------------------------------------------------------------------------
def _directed(rng):
    """hand-shaped corners of the statement, each instantiated for every trigger family"""
    def fl(name, **kw):
        base = dict(name=name, loop=None, loop_priority=None, priority=None, hpriority=None, mention=[], forms={}, fits=True,
                    act=("ustart", name.upper()), how="start")
        base.update(kw)
        base["forms"] = {p: base["forms"].get(p, "value") for p in base["mention"]}
        return base
    for trig, t in sorted(_TRIGGERS.items()):
        ps = sorted(t["params"])
        # same loop interleaved by another loop: a(L1) b(L2) c(L1), in all three start orders, equal and different specificity
        for order in ([0, 1, 2], [1, 0, 2], [0, 2, 1]):
            for m_a, m_c in (([ps[0]], []), ([], [ps[0]]), ([ps[0]], [ps[0]])):
                fs = [fl("a", loop="L1", mention=m_a), fl("b", loop="L2", mention=[ps[0]] if m_a else []), fl("c", loop="L1", mention=m_c)]
                yield trig, [fs[i] for i in order]
        # priority decides between equally specific matches; specificity decides between equal priorities
        for pa, pb in (("0.5", "1.0"), ("1.0", "0.5"), ("0.3", None), (None, "0.8"), ("0.8", "0.5")):
            yield trig, [fl("a", priority=pa), fl("b", priority=pb)]
            yield trig, [fl("a", priority=pa, mention=ps[:2]), fl("b", priority=pb, mention=ps[:2]), fl("c", priority="0.3", mention=ps[:2])]
        for ma, mb in ((ps[:1], ps[:2]), (ps[:3], ps[:2]), ([], ps[:1]), (ps[1:2], ps[:3])):
            yield trig, [fl("a", mention=ma), fl("b", mention=mb)]
            yield trig, [fl("a", mention=ma, how="activate"), fl("b", mention=mb, how="activate")]
        # more specific but lower priority (0.9^-1 * 0.8 < 1 ; 0.9^-3 * 0.8 > 1)
        yield trig, [fl("a", mention=ps[:1], priority="0.8"), fl("b")]
        yield trig, [fl("a", mention=ps[:3], priority="0.8"), fl("b")]
        # exact ties with different actions (2, 3 and 4 way), identical actions, mixture
        yield trig, [fl("a"), fl("b")]
        yield trig, [fl("a"), fl("b"), fl("c")]
        yield trig, [fl("a", mention=ps[:1]), fl("b", mention=ps[1:2]), fl("c", mention=ps[2:3]), fl("d", mention=ps[:1])]
        yield trig, [fl("a", act=("ustart", "X")), fl("b", act=("ustart", "X"))]
        yield trig, [fl("a", act=("uawait", "X")), fl("b", act=("ustart", "X")), fl("c", act=("uawait", "X"), priority="0.5")]
        yield trig, [fl("a", act=("ustart", "X"), priority="0.5"), fl("b", act=("ustart", "Y"), mention=ps[:1]), fl("c", act=("ustart", "X"))]
        yield trig, [fl("a", act=("ustart", "X"), mention=ps[:2]), fl("b", act=("ustart", "Y")), fl("c", act=("ustart", "Y")), fl("d", act=("ustart", "X"), priority="0.3")]
        yield trig, [fl("a", act=("send", "X")), fl("b", act=("send", "X")), fl("c", act=("gstart", "X"), priority="0.5")]
        # same action in two loops: started once per loop
        yield trig, [fl("a", act=("ustart", "X"), loop="L1"), fl("b", act=("ustart", "X"), loop="L2"), fl("c", act=("ustart", "Y"), loop="L1", priority="0.5")]
        # non fitting flows and observers next to a conflict
        yield trig, [fl("a", mention=ps[:1], forms={ps[0]: "wrong"}, fits=False), fl("b"), fl("c", priority="0.5")]
        yield trig, [fl("a", mention=ps[:2], forms={ps[1]: "wrong"}, fits=False, how="activate"), fl("b", act=None), fl("c"), fl("d", mention=ps[:1])]
        # a single competitor per loop: nothing to resolve
        yield trig, [fl("a", loop="L1", priority="0.3"), fl("b", loop="L2"), fl("c")]
    # chains: the first (helper) match decides before the second one is looked at; the second decides among equal first ones
    ps = sorted(_TRIGGERS["chain"]["params"])
    for hp_a, hp_b, p_a, p_b, m_a, m_b in ((None, None, "0.5", None, ps[:2], ps[:1]), ("0.8", None, None, "0.3", ps[:1], ps[:1]),
                                           (None, "0.5", "0.3", None, [], ps[:3]), (None, None, "0.5", "0.8", ps[:1], ps[1:2]),
                                           ("0.5", "0.5", None, None, ps[:1], ps[:2]), ("0.8", "0.8", "0.8", "0.5", ps, ps)):
        yield "chain", [fl("a", hpriority=hp_a, priority=p_a, mention=m_a), fl("b", hpriority=hp_b, priority=p_b, mention=m_b)]
        yield "chain", [fl("a", hpriority=hp_a, priority=p_a, mention=m_a, loop="L1"), fl("c", loop="L2", mention=ps[:1]),
                        fl("b", hpriority=hp_b, priority=p_b, mention=m_b, loop="L1", how="activate")]


def _random_scenarios(rng, n):
    trigs = sorted(_TRIGGERS)
    for i in range(n):
        trig = trigs[i % len(trigs)]
        k = rng.choice([2, 3, 3, 4, 4])
        yield trig, [_gen_flow(rng, trig, "abcd"[j]) for j in range(k)]


def _n_outcomes(radix):
    n = 1
    for r in radix:
        n *= r
    return n


# ---------------------------------------------------------------------------------------------
# (3) contract monitor around _resolve_action_conflicts with injected head order / score chains
# ---------------------------------------------------------------------------------------------
def _make_hook(flows, inject, verdict):
    """wraps the real _resolve_action_conflicts.  `inject(heads_info)` returns (permutation, score chains) or None.
    Contract (statement, per call):  the heads are partitioned by the interaction loop of their flow; in every part the
    advancing heads are exactly those whose action is identical to that of one head with a lexicographically maximal
    score chain; every other head's flow is no longer running; one event is emitted per part."""
    by_name = {f["name"]: f for f in flows}

    def hook(real):
        def wrapped(state, heads):
            from nemoguardrails.colang.v2_x.runtime.statemachine import get_flow_state_from_head, is_active_flow
            heads = list(heads)
            info = []
            for h in heads:
                fs = get_flow_state_from_head(state, h)
                info.append((fs.flow_id, fs.loop_id))
            if len(heads) >= 2 and all(fid in by_name for fid, _ in info) and not verdict.get("done"):
                inj = inject(info)
                if inj is not None:
                    perm, chains = inj
                    heads = [heads[i] for i in perm]
                    info = [info[i] for i in perm]
                    for h, c in zip(heads, chains):
                        h.matching_scores = list(c)
                verdict["done"] = True
                chains = [list(h.matching_scores) for h in heads]
                n_out = len(state.outgoing_events)
                result = real(state, heads)
                res_ids = [id(h) for h in result]
                problem = None
                parts = {}
                for i, (fid, loop) in enumerate(info):
                    parts.setdefault(loop, []).append(i)
                equal_len = len({len(c) for c in chains}) == 1
                for loop, idx in parts.items():
                    adv = [i for i in idx if id(heads[i]) in res_ids]
                    if not adv:
                        problem = "loop part %r: no head advances" % [info[i][0] for i in idx]
                        break
                    keys = {_act_key(by_name[info[i][0]]["act"]) for i in adv}
                    if len(keys) != 1:
                        problem = "loop part %r: heads with different actions advance: %r" % (
                            [info[i][0] for i in idx], [info[i][0] for i in adv])
                        break
                    key = list(keys)[0]
                    missing = [info[i][0] for i in idx if _act_key(by_name[info[i][0]]["act"]) == key and i not in adv]
                    if missing:
                        problem = "heads %r are on the winning action %r but do not advance" % (missing, key)
                        break
                    # language reference (flow conflict resolution): score chains are compared left to right, a shorter chain is
                    # padded with 1.0 (nothing unmentioned in the matches it did not make)
                    width = max(len(chains[i]) for i in idx)
                    padded = {i: list(chains[i]) + [1.0] * (width - len(chains[i])) for i in idx}
                    best = max(padded[i] for i in idx)
                    if not any(padded[i] == best for i in adv):
                        problem = "advancing heads %r (chains %r) but the maximal (1.0-padded) chain %r belongs to %r" % (
                            [info[i][0] for i in adv], [chains[i] for i in adv], best,
                            [info[i][0] for i in idx if padded[i] == best])
                        break
                    alive = [info[i][0] for i in idx if i not in adv and is_active_flow(get_flow_state_from_head(state, heads[i]))]
                    if alive:
                        problem = "losing heads' flows %r are still running" % alive
                        break
                if problem is None and len(state.outgoing_events) - n_out != len(parts):
                    problem = "%d events emitted for %d interaction loops" % (len(state.outgoing_events) - n_out, len(parts))
                if problem is None and len(res_ids) != len(set(res_ids)):
                    problem = "a head advances twice"
                verdict["checked"] = True
                verdict["problem"] = problem
                verdict["call"] = "heads (flow, loop, chain) = %r" % [(info[i][0], info[i][1], chains[i]) for i in range(len(heads))]
                return result
            return real(state, heads)
        return wrapped
    return hook


def _monitor_checks(rng, tier):
    import itertools
    failing = []
    n = 0
    seen = set()
    grid = [1.0, 0.9, 0.81, 0.5]

    def fl(name, loop, act):
        return dict(name=name, loop=loop, loop_priority=None, priority=None, mention=[], forms={}, fits=True, act=act, how="start")

    layouts = [
        [("L1", "A"), ("L2", "B"), ("L1", "C")],
        [("L1", "A"), ("L1", "B"), ("L1", "A")],
        [(None, "A"), ("L1", "B"), (None, "C"), ("L1", "D")],
        [("L1", "A"), ("L2", "B"), ("L1", "A"), ("L2", "C")],
        [("L1", "A"), ("L2", "A"), ("L1", "B"), ("L2", "B")],
        [(None, "A"), (None, "B")],
        [(None, "A"), (None, "B"), (None, "C"), (None, "A")],
    ]
    reps = 6 if tier == "thorough" else 2
    for li, layout in enumerate(layouts):
        flows = [fl("abcd"[i], loop, ("ustart" if i % 2 == 0 else "uawait", x)) for i, (loop, x) in enumerate(layout)]
        perms = list(itertools.permutations(range(len(flows))))
        if tier != "thorough" and len(perms) > 8:
            perms = perms[:2] + rng.sample(perms[2:], 6)
        for perm in perms:
            for rep in range(reps):
                length = rng.choice([1, 1, 2, 3])
                mode = rng.random()
                chains = []
                for _ in flows:
                    ln = length if mode < 0.55 else rng.choice([1, 2, 3])
                    chains.append([rng.choice(grid) for _ in range(ln)])
                if mode < 0.3:   # force ties
                    chains = [list(chains[0]) for _ in flows]
                verdict = {}

                def inject(info, perm=perm, chains=chains):
                    if len(info) != len(perm):
                        return None
                    order = [info[i][0] for i in perm]
                    return list(perm), [chains["abcd".index(fid)] for fid in order]

                for tie_k in (0, 1):
                    verdict.clear()
                    res = _run_raw("plain", flows, ("script", tie_k), _make_hook(flows, inject, verdict))
                    n += 1
                    seen.add((li, perm, tuple(map(tuple, chains)), tie_k))
                    problem = res or verdict.get("problem")
                    if not verdict.get("checked") and problem is None:
                        problem = "the conflict resolution was never reached with all competitors"
                    if problem and len(failing) < 5:
                        failing.append(dict(kind="post", function="_resolve_action_conflicts", file=SM, property_id="C05",
                                            clause="per interaction loop: advancing heads == heads on the action of one head with maximal score chain; "
                                                   "all other heads' flows aborted; one event per loop",
                                            inputs=verdict.get("call", "layout %r perm %r chains %r" % (layout, perm, chains)) + "; tie-break pick %d" % tie_k,
                                            outcome=problem))
    yield dict(function="_resolve_action_conflicts (contract monitor, injected head order and score chains)", evaluations=n,
               distinct=len(seen), failures=len(failing), failing=failing,
               bound="%d loop/action layouts of 2-4 real heads (1-2 interaction loops + main loop) x head orders (all permutations in thorough, "
                     "8 per layout in quick) x %d random score-chain vectors of length 1-3 over {1.0,0.9,0.81,0.5} (30%% forced all-equal, 45%% with chains of different lengths: "
                     "compared after padding with 1.0) x 2 tie-break picks" % (len(layouts), reps))


def _run_raw(trig, flows, tie, hook):
    """drive a scenario (all flows reach their action in the same step) with the contract monitor installed"""
    import nemoguardrails.colang.v2_x.runtime.statemachine as sm
    from native import v2
    src = _program(trig, flows)
    real_random = sm.random
    real_resolve = sm._resolve_action_conflicts
    sm.random = _ScriptedRandom(tie[1])
    try:
        state = _fresh_state(src)
        state, out = v2.step(state, v2.START_MAIN)
        sm._resolve_action_conflicts = hook(real_resolve)
        state, out = v2.step(state, dict(_TRIGGERS[trig]["event"]))
        return None
    except Exception as ex:
        return "raised %s: %s" % (type(ex).__name__, str(ex)[:160])
    finally:
        sm.random = real_random
        sm._resolve_action_conflicts = real_resolve


# ---------------------------------------------------------------------------------------------
# entry point
# ---------------------------------------------------------------------------------------------
def _fail(function, trig, flows, tie, problem):
    return dict(kind="post", function=function, file=SM, property_id="C05",
                clause="per interaction loop exactly one of the competing different actions starts, it belongs to a flow with maximal "
                       "specificity x priority, flows on the identical action all proceed (started once), all others fail; other loops and "
                       "non-fitting flows are unaffected",
                inputs=_describe(trig, flows, "; tie-break %s=%d" % tie)[:1400], outcome=problem)


def native_checks(rng, tier):
    thorough = tier == "thorough"
    # ---- (1) scripted tie-break: every outcome of random.choice enumerated
    fails = []
    n = 0
    seen = set()
    scenarios = list(_directed(rng)) + list(_random_scenarios(rng, 1500 if thorough else 260))
    cap = 24 if thorough else 6
    seed_jobs = []
    for trig, flows in scenarios:
        res = _run(trig, flows, ("script", 0))
        n += 1
        seen.add((_program(trig, flows), 0))
        if res["problem"] and len(fails) < 5:
            fails.append(_fail("run_to_completion (scripted tie-break)", trig, flows, ("script", 0), res["problem"]))
        total = _n_outcomes(res["radix"])
        for k in range(1, min(total, cap)):
            r2 = _run(trig, flows, ("script", k))
            n += 1
            seen.add((_program(trig, flows), k))
            if r2["problem"] and len(fails) < 5:
                fails.append(_fail("run_to_completion (scripted tie-break)", trig, flows, ("script", k), r2["problem"]))
        seed_jobs.append((trig, flows, total))
    yield dict(function="run_to_completion: competing flows, all tie-break outcomes", evaluations=n, distinct=len(seen),
               failures=len(fails), failing=fails,
               bound="%d programs (%d directed + random) of 2-4 competing flows started/activated from main, 6 trigger families (UMIM action "
                     "event, plain event, FlowFinished / FlowStarted / FlowFailed of a shared helper flow, two-step chains through one "
                     "helper flow per competitor with its own specificity and priority), 0-3 mentioned parameters (value / regex / "
                     "wrong value), priority in {-,1.0,0.8,0.5,0.3}, loops {main,L1,L2} (+loop priorities), actions start/await Utterance, "
                     "Gesture, send event over 3 values, observers; every outcome of random.choice enumerated (cap %d per program)"
                     % (len(scenarios), len(scenarios) - (1500 if thorough else 260), cap))

    # ---- (2) real random tie-breaks
    fails2 = []
    n2 = 0
    seen2 = set()
    for trig, flows, total in seed_jobs:
        seeds = (8 if thorough else 3) if total > 1 else (1 if not thorough else 2)
        if not thorough and total == 1 and rng.random() < 0.5:
            continue
        for _ in range(seeds):
            s = rng.randrange(10 ** 6)
            r = _run(trig, flows, ("seed", s))
            n2 += 1
            seen2.add((_program(trig, flows), s))
            if r["problem"] and len(fails2) < 5:
                fails2.append(_fail("run_to_completion (random.seed tie-break)", trig, flows, ("seed", s), r["problem"]))
    yield dict(function="run_to_completion: competing flows, seeded random tie-breaks", evaluations=n2, distinct=len(seen2),
               failures=len(fails2), failing=fails2,
               bound="the same programs under the real `random` module: %s seeds where a tie-break happened, %s otherwise"
                     % ("8" if thorough else "3", "2" if thorough else "1 (half of the programs)"))

    # ---- (3) contract monitor on _resolve_action_conflicts
    for rec in _monitor_checks(rng, tier):
        yield rec

    # ---- (4) co-winners that stand inside a group with a catch label (or-group of starts)
    yield _or_group_checks(rng, tier)


def _or_group_checks(rng, tier):
    """"flows that try to start an identical action all proceed and that action is started once" - also when the co-winner starts the
    identical action as ONE ALTERNATIVE of an or-group (its head then carries a catch label, which is meant for losing heads only)."""
    import contextlib
    import io
    from nemoguardrails.colang.v2_x.runtime.flows import FlowStatus, InternalEvent
    from nemoguardrails.colang.v2_x.runtime.statemachine import run_to_completion
    fails, n = [], 0
    for same, other in [("X", "Y"), ("Y", "X"), ("hello", "bye")]:
        for order in (0, 1):
            for _spec in (0,):
                alts = ['UtteranceBotAction(script="%s")' % same, 'UtteranceBotAction(script="%s")' % other]
                if order:
                    alts.reverse()
                src = ('flow choosy\n  match UtteranceUserAction.Finished()\n  start %s or %s\n  start UtteranceBotAction(script="choosy went on")\n'
                       '  match NeverHappens()\n\nflow direct\n  match UtteranceUserAction.Finished(final_transcript="go")\n'
                       '  start UtteranceBotAction(script="%s") as $x\n  match $x.Finished()\n  start UtteranceBotAction(script="direct went on")\n\n'
                       'flow main\n  start choosy\n  start direct\n  match NeverHappens()\n' % (alts[0], alts[1], same))
                for k in range(4 if tier == "thorough" else 2):
                    n += 1
                    problem = None
                    try:
                        with contextlib.redirect_stdout(io.StringIO()):
                            state = _fresh_state(src)
                        import random as _r
                        _r.seed(rng.randrange(10 ** 6))
                        state = run_to_completion(state, InternalEvent(name="StartFlow", arguments={"flow_id": "main"}))
                        state = run_to_completion(state, {"type": "UtteranceUserActionFinished", "final_transcript": "go"})
                        started = [e.get("script") for e in state.outgoing_events if e["type"] == "StartUtteranceBotAction"]
                        if started.count(same) != 1:
                            problem = "the identical action %r was started %d times: %s" % (same, started.count(same), started)
                        elif other in started:
                            problem = "the losing alternative %r was started as well: %s" % (other, started)
                        elif any(fs.status in (FlowStatus.STOPPED, FlowStatus.STOPPING) for fs in state.flow_id_states.get("direct", [])):
                            problem = "the winner did not proceed: %s" % [fs.status.name for fs in state.flow_id_states.get("direct", [])]
                        elif "choosy went on" not in started:
                            problem = "the flow that starts the identical action inside an or-group did not proceed: started %s, status %s" % (
                                started, [fs.status.name for fs in state.flow_id_states.get("choosy", [])])
                    except Exception as ex:   # noqa
                        problem = "%s: %s" % (type(ex).__name__, str(ex)[:200])
                    if problem and len(fails) < 5:
                        fails.append(dict(kind="post", function="run_to_completion: co-winner inside an or-group", file=SM, property_id="C05",
                                          clause="flows that try to start an identical action all proceed and that action is started once",
                                          inputs="program:\n%s\nevent UtteranceUserActionFinished(final_transcript='go')" % src, outcome=problem))
    # the co-winner starts the identical action as the condition of a `when` (inside an open scope); when the shared action finishes
    # the `when` branch runs - the scope must then close without a dangling action reference
    for same in ("X", "hello"):
        src = ('flow choosy\n  match UtteranceUserAction.Finished()\n  when UtteranceBotAction(script="%s")\n'
               '    start UtteranceBotAction(script="choosy saw it finish")\n  or when UtteranceUserAction.Finished(final_transcript="other")\n'
               '    start UtteranceBotAction(script="choosy other")\n  match NeverHappens()\n\nflow direct\n'
               '  match UtteranceUserAction.Finished(final_transcript="go")\n  start UtteranceBotAction(script="%s") as $x\n  match $x.Finished()\n\n'
               'flow main\n  start choosy\n  start direct\n  match NeverHappens()\n' % (same, same))
        n += 1
        problem = None
        try:
            with contextlib.redirect_stdout(io.StringIO()):
                state = _fresh_state(src)
            state = run_to_completion(state, InternalEvent(name="StartFlow", arguments={"flow_id": "main"}))
            state = run_to_completion(state, {"type": "UtteranceUserActionFinished", "final_transcript": "go"})
            started = [(e.get("script"), e.get("action_uid")) for e in state.outgoing_events if e["type"] == "StartUtteranceBotAction"]
            if [x for x, _ in started] != [same]:
                problem = "the identical action %r was not started exactly once: %s" % (same, [x for x, _ in started])
            else:
                state = run_to_completion(state, {"type": "UtteranceBotActionFinished", "action_uid": started[0][1], "final_script": same,
                                                  "is_success": True})
                later = [e.get("script") for e in state.outgoing_events if e["type"] == "StartUtteranceBotAction"]
                errs = [e for e in state.outgoing_events if "Error" in e["type"]]
                if "choosy saw it finish" not in later:
                    problem = ("the flow that started the identical action inside a `when` did not proceed when the shared action finished: "
                               "started %s, status %s, %s" % (later, [fs.status.name for fs in state.flow_id_states.get("choosy", [])], errs[:1]))
        except Exception as ex:   # noqa
            problem = "%s: %s" % (type(ex).__name__, str(ex)[:200])
        if problem and len(fails) < 5:
            fails.append(dict(kind="post", function="run_to_completion: co-winner inside an or-group", file=SM, property_id="C05",
                              clause="flows that try to start an identical action all proceed and that action is started once",
                              inputs="program:\n%s\nevents UtteranceUserActionFinished('go'), then Finished of the shared action" % src, outcome=problem))
    return dict(function="run_to_completion: co-winner inside an or-group", evaluations=n, distinct=n, failures=len(fails), failing=fails,
                bound="3 action pairs x 2 orders of the alternatives x %d tie-break seeds; one competitor with the more specific match; 2 programs with the identical action as a `when` condition (open scope), followed until the shared action finishes" % (4 if tier == "thorough" else 2))
