"""C18 — streaming output does not depend on how the LLM text is chunked.

Native (bounded) side only.  The code under contract is nemoguardrails/streaming.py::StreamingHandler (push_chunk / _process /
on_llm_new_token / on_llm_end, the async iterator and `completion`).

Statement (oracle): for a given LLM output text and a prefix / suffix / stop configuration, for EVERY way the text is split into
non-empty tokens
  (S) the concatenation of the chunks the handler's async iterator delivers equals
          cut_at_first_stop(strip_suffix(strip_prefix(text)))                                      [`_acceptable`]
  (C) the handler's final `completion` equals that same string,
  (E) hence `completion` == concatenation of the delivered chunks,
  (I) hence the delivered concatenation is the same for all chunkings of the text.
Where the statement leaves the order "remove the suffix" / "cut at the stop" open and the two orders give different strings (the
text after the cut ends with the suffix), both strings are accepted by (S)/(C) — (E) and (I) still have to hold.

The real handler is driven the two ways the repository drives it:
  drive=llm    on_llm_new_token(token, chunk=<str | GenerationChunk | ChatGenerationChunk>) per token, on_llm_end(LLMResult), then the
               explicit close `push_chunk(None)` of LLMRails.generate_async            (LangChain callback path)
  drive=push   push_chunk(<str | AIMessageChunk>) per token, push_chunk(""), push_chunk(None)   (direct path)
  drive=pipe   a configured handler whose `pipe_to` is a plain handler (the single-call "<<STREAMING[..]>>" set-up of
               generation.py): tokens go to the configured one (llm drive), chunks are read from the plain one.
What the consumer sees is read with the real `__anext__` (items up to the first end marker); the read never blocks (the queue
is tested for emptiness first).

Two records (oracle=delivered: clauses S, I, X; oracle=completion: clauses C, E) per (configuration family, grid, drive) so that a
finding in one family / one observable cannot hide another.  grid=real: the patterns the repository installs and bot-message-like
texts; grid=synth: 1-3 character patterns over {a,b,c} with ALL bodies up to a length.  Families: none, prefix, prefix-absent (text
never completes the prefix), suffix, prefix+suffix, stop, stop-seam (outputs that, written twice, contain the stop sequence — kept
apart from `stop`), stop-multi (two stop sequences), suffix+stop, prefix+stop, prefix+suffix+stop, pipe.  Inside a record one
witness (the smallest) is kept per (clause, signature); the signature is a description of HOW the observed string differs from
the expected one (suffix-kept, tail-repeated, stop-leftover, lost-head, ...), so that a known finding can be matched precisely
(`family=... grid=... drive=...`, `clause=(S)`, `signature=...`) and any other deviation in the same family still shows up."""
from pyvc.api import *

FILE = "nemoguardrails/streaming.py"
PROP = "C18"

CLAUSES = {
    "S": "(S) concatenation of the chunks delivered by the handler's async iterator == text with the configured prefix and suffix "
         "removed and cut at the first stop sequence, for every chunking",
    "C": "(C) handler.completion == text with the configured prefix and suffix removed and cut at the first stop sequence, "
         "for every chunking",
    "E": "(E) handler.completion == concatenation of the delivered chunks",
    "I": "(I) the concatenation of the delivered chunks is the same for every chunking of the same text",
    "X": "(X) driving the handler raises nothing / does not hang",
}


# =============================================================================================
# the statement
# =============================================================================================
def _cut(t, stops):
    cut = len(t)
    for s in stops or ():
        i = t.find(s)
        if i >= 0:
            cut = min(cut, i)
    return t[:cut]


def _acceptable(text, prefix, suffix, stops):
    """the strings the statement allows (one; two where the order suffix-removal / stop-cut matters)"""
    t = text
    if prefix and t.startswith(prefix):
        t = t[len(prefix):]
    # reading A: remove the suffix of the text, then cut
    a = t[:-len(suffix)] if (suffix and t.endswith(suffix)) else t
    a = _cut(a, stops)
    # reading B: cut, then remove the suffix of what is left
    b = _cut(t, stops)
    if suffix and b.endswith(suffix):
        b = b[:-len(suffix)]
    return [a] if a == b else [a, b]


def _signature(obs, acc, suffix, stops):
    """how `obs` deviates from the (closest) acceptable string — used only to label failures"""
    best = None
    for exp in acc:
        if suffix and obs == exp + suffix:
            sig = "suffix-kept"
        elif obs.startswith(exp) and len(obs) > len(exp):
            extra = obs[len(exp):]
            if exp.endswith(extra):
                sig = "tail-repeated"
            elif any(s.startswith(extra) for s in stops or ()):
                sig = "stop-leftover"
            elif suffix and extra.startswith(suffix):
                sig = "suffix-and-more-kept"
            else:
                sig = "extra-tail"
        elif exp.startswith(obs):
            sig = "lost-all" if obs == "" else "lost-tail"
        elif exp.endswith(obs):
            sig = "lost-head"
        else:
            sig = "other"
        rank = ["suffix-kept", "tail-repeated", "stop-leftover", "suffix-and-more-kept", "extra-tail", "lost-tail", "lost-head",
                "lost-all", "other"].index(sig)
        if best is None or rank < best[0]:
            best = (rank, sig, exp)
    return best[1], best[2]


# =============================================================================================
# chunkings
# =============================================================================================
def _pieces(text, mask):
    out = []
    last = 0
    for i in range(1, len(text)):
        if (mask >> (i - 1)) & 1:
            out.append(text[last:i])
            last = i
    out.append(text[last:])
    return out


def _marks(text, prefix, suffix, stops):
    """cut positions around the places where the pattern logic switches (used for long texts)"""
    n = len(text)
    pos = set()

    def around(p):
        for d in (-1, 0, 1):
            if 1 <= p + d <= n - 1:
                pos.add(p + d)

    if prefix and text.startswith(prefix):
        around(len(prefix))
    if suffix:
        around(n - len(suffix))
    for s in stops or ():
        i = text.find(s)
        k = 0
        while i >= 0 and k < 2:
            around(i)
            around(i + len(s))
            if len(s) > 2:
                pos.add(i + len(s) // 2)
            i = text.find(s, i + 1)
            k += 1
    return sorted(p for p in pos if 1 <= p <= n - 1)


def _masks(text, cfg, rng, exhaustive_upto, n_marks, n_random):
    n = len(text)
    if n <= 1:
        return [0], True
    if n <= exhaustive_upto:
        return range(2 ** (n - 1)), True
    marks = _marks(text, cfg["prefix"], cfg["suffix"], cfg["stop"])
    if len(marks) > n_marks:
        # keep the marks closest to the pattern boundaries first (they were generated in that order), deterministic thinning
        step = len(marks) / float(n_marks)
        marks = sorted({marks[int(i * step)] for i in range(n_marks)})
    out = {0, 2 ** (n - 1) - 1}
    for sub in range(2 ** len(marks)):
        m = 0
        for j, p in enumerate(marks):
            if (sub >> j) & 1:
                m |= 1 << (p - 1)
        out.add(m)
        # the same cuts on top of char-by-char tokens elsewhere is covered by the random masks below
    for k in range(n_random):
        dens = (0.08, 0.25, 0.5, 0.8)[k % 4]
        m = 0
        for i in range(n - 1):
            if rng.random() < dens:
                m |= 1 << i
        out.add(m)
    return sorted(out), False


# =============================================================================================
# driving the real handler
# =============================================================================================
class _Env:
    def __init__(self):
        from uuid import uuid4
        from langchain.schema.messages import AIMessageChunk
        from langchain.schema.output import ChatGenerationChunk, GenerationChunk, LLMResult
        from nemoguardrails.streaming import StreamingHandler
        self.H = StreamingHandler
        self.rid = uuid4()
        self.end = LLMResult(generations=[[]])
        self.wrap = [
            lambda s: s,
            lambda s: GenerationChunk(text=s),
            lambda s: s,
            lambda s: ChatGenerationChunk(message=AIMessageChunk(content=s)),
        ]
        self.wrap_push = [lambda s: s, lambda s: s, lambda s: s, lambda s: AIMessageChunk(content=s)]


async def _read(h):
    """what an `async for chunk in handler` consumer receives (never blocks: stops when the queue is empty)"""
    out = []
    while not h.queue.empty():
        try:
            out.append(await h.__anext__())
        except StopAsyncIteration:
            break
    return "".join(out)


async def _drive(env, pieces, cfg, drive, variant):
    import asyncio
    h = env.H()
    h.set_pattern(prefix=cfg["prefix"], suffix=cfg["suffix"])
    if cfg["stop"]:
        h.stop = list(cfg["stop"])
    if drive == "push":
        w = env.wrap_push[variant]
        for p in pieces:
            await h.push_chunk(w(p))
        await h.push_chunk("")
        await h.push_chunk(None)
        return await _read(h), h.completion
    sink = None
    if drive == "pipe":
        sink = env.H()
        h.set_pipe_to(sink)
    w = env.wrap[variant]
    if variant == 3:
        await h.on_chat_model_start({}, [[]], run_id=env.rid)
    for p in pieces:
        await h.on_llm_new_token(p, chunk=w(p), run_id=env.rid)
        if sink is not None:
            await asyncio.sleep(0)
    await h.on_llm_end(env.end, run_id=env.rid)
    await h.push_chunk(None)
    if sink is not None:
        for _ in range(3):
            await asyncio.sleep(0)
        return await _read(sink), h.completion
    return await _read(h), h.completion


class _Alarm(Exception):
    pass


class _Record:
    def __init__(self, family, grid, drive):
        self.family, self.grid, self.drive = family, grid, drive
        self.tag = "family=%s grid=%s drive=%s" % (family, grid, drive)
        self.n = 0
        self.texts = 0
        self.exhaustive = 0
        self.maxlen_ex = 0
        self.maxlen = 0
        self.best = {}      # (clause, signature) -> (rank, failure dict)
        self.count = {}

    def fail(self, clause, sig, cfg, text, pieces, variant, outcome):
        key = (clause, sig)
        self.count[key] = self.count.get(key, 0) + 1
        rank = (len(text), len(pieces) if pieces else 0)
        if key in self.best and self.best[key][0] <= rank:
            return
        self.best[key] = (rank, dict(
            kind="post", function="StreamingHandler.push_chunk", file=FILE, property_id=PROP,
            clause="%s [%s clause=(%s) signature=%s]" % (CLAUSES[clause], self.tag, clause, sig),
            inputs="%s prefix=%r suffix=%r stop=%r text=%r tokens=%r token_type=%s" % (
                self.tag, cfg["prefix"], cfg["suffix"], cfg["stop"], text, pieces,
                ("str", "GenerationChunk" if self.drive != "push" else "str", "str",
                 "ChatGenerationChunk" if self.drive != "push" else "AIMessageChunk")[variant]),
            outcome=outcome))

    def results(self, bound):
        """two records over the same runs: what the consumer receives (S, I, X) and the `completion` bookkeeping (C, E) — so
        that the (known) completion findings cannot crowd a delivered-text finding out of the few reported witnesses"""
        out = []
        for group, what in ((("S", "I", "X"), "delivered"), (("C", "E"), "completion")):
            keys = sorted((k for k in self.best if k[0] in group), key=lambda k: (group.index(k[0]), k[1]))
            failing = []
            for k in keys[:6]:
                f = self.best[k][1]
                f["outcome"] += " (signature=%s; %d of %d runs of this record fail clause (%s) with this signature)" % (
                    k[1], self.count[k], self.n, k[0])
                failing.append(f)
            out.append(dict(function="StreamingHandler[%s oracle=%s]" % (self.tag, what), evaluations=self.n,
                            distinct=self.n if what == "delivered" else 0, failures=len(keys), failing=failing,
                            bound=("clauses (%s) on: " % "), (".join(group)) + bound +
                                  ("" if what == "delivered" else " [the same runs as the oracle=delivered record]")))
        return out


async def _run_text(env, rec, cfg, text, drive, masks):
    acc = _acceptable(text, cfg["prefix"], cfg["suffix"], cfg["stop"])
    streams = {}
    all_s_ok = True
    for mask in masks:
        pieces = _pieces(text, mask)
        variant = (mask ^ (mask >> 2)) & 3
        rec.n += 1
        try:
            streamed, completion = await _drive(env, pieces, cfg, drive, variant)
        except _Alarm:
            raise
        except BaseException as ex:        # RecursionError etc. on a changed tree
            if isinstance(ex, (KeyboardInterrupt, SystemExit)):
                raise
            rec.fail("X", "raised-%s" % type(ex).__name__, cfg, text, pieces, variant,
                     "raised %s: %s" % (type(ex).__name__, str(ex)[:160]))
            all_s_ok = False
            continue
        s_ok = streamed in acc
        c_ok = completion in acc
        if not s_ok:
            all_s_ok = False
            sig, exp = _signature(streamed, acc, cfg["suffix"], cfg["stop"])
            rec.fail("S", sig, cfg, text, pieces, variant,
                     "delivered %r, expected %r (completion=%r)" % (streamed, exp, completion))
        if not c_ok:
            sig, exp = _signature(completion, acc, cfg["suffix"], cfg["stop"])
            rec.fail("C", sig, cfg, text, pieces, variant,
                     "completion=%r, expected %r (delivered %r)" % (completion, exp, streamed))
        if s_ok and c_ok and streamed != completion:
            rec.fail("E", "differ", cfg, text, pieces, variant,
                     "completion=%r but delivered %r (the statement allows %r)" % (completion, streamed, acc))
        if s_ok and streamed not in streams:
            streams[streamed] = pieces
    if all_s_ok and len(streams) > 1:
        items = sorted(streams.items())
        rec.fail("I", "chunking-dependent", cfg, text, items[0][1], 0,
                 "tokens %r deliver %r but tokens %r deliver %r" % (items[0][1], items[0][0], items[1][1], items[1][0]))


# =============================================================================================
# scenario grids
# =============================================================================================
P1 = '  "'                 # generation.py: set_pattern(prefix='  "', suffix='"')
P2 = 'Bot message: "'      # generation.py (verbose_v1): set_pattern(prefix='Bot message: "', suffix='"')
SUF = '"'
STOP_USER = ["\nUser"]
STOP_QUOTE = ['"\n']       # generation.py single-call streaming: _streaming_handler.stop = ['"\n']
STOP_TWO = ["\nUser", "\nBot"]

BODIES = ["", "a", "Hi", " Hi", '"Hi"', '""No" was', "so?!", "me too", 'a "b" c', "Ok.\n", "x\ny", "Hi\nUs", " ", '"', "  ",
          "Hello there!", "get some", 'say "x"', "ab\nUsers"]
TAILS_USER = ["", "\nUser", "\nUser: hi", "\nUser a\nUser b", "\nUser\nUser", "\nUse", "\nUsex\nUser", "\n\nUser x"]
TAILS_QUOTE = ['"\n', '"\nUser: x"\n', '"\n"\n', '"']
TAILS_TWO = ["\nBot x\nUser y", "\nUser y\nBot x", "\nBot", "\nUser\nBot"]


def _cfg(prefix=None, suffix=None, stop=None):
    return dict(prefix=prefix, suffix=suffix, stop=list(stop) if stop else None)


def _real_grid(family, tier):
    """(cfg, text) pairs with the configurations the repository installs and bot-message-like texts"""
    out = []
    bodies = BODIES
    small = BODIES[:10] if tier != "thorough" else BODIES
    if family == "none":
        for b in bodies:
            for t in ("", SUF, "\nUser: hi"):
                if b + t:
                    out.append((_cfg(), b + t))
    elif family == "prefix":
        for p in (P1, P2):
            for b in bodies:
                out.append((_cfg(prefix=p), p + b))
            out.append((_cfg(prefix=p), p + p + "x"))
    elif family == "prefix-absent":
        for p in (P1, P2):
            for t in ("Hi", "Hi there", p[:-1] + "Hi", p[1:] + "Hi", "x" + p + "Hi", p[:1], "Bot: \"Hi", '"Hi', " "):
                out.append((_cfg(prefix=p), t))
    elif family == "suffix":
        for b in bodies:
            for t in (SUF, "", SUF + SUF, SUF + " "):
                if b + t:
                    out.append((_cfg(suffix=SUF), b + t))
    elif family == "prefix+suffix":
        for p in (P1, P2):
            for b in bodies:
                out.append((_cfg(prefix=p, suffix=SUF), p + b + SUF))
            for b in small:
                out.append((_cfg(prefix=p, suffix=SUF), p + b))
                out.append((_cfg(prefix=p, suffix=SUF), p + b + SUF + SUF))
    elif family == "stop":
        for b in bodies:
            for t in TAILS_USER:
                if b + t:
                    out.append((_cfg(stop=STOP_USER), b + t))
        for b in small:
            for t in TAILS_QUOTE:
                out.append((_cfg(stop=STOP_QUOTE), b + t))
    elif family == "stop-seam":
        # outputs that begin with the end of the stop sequence and end with its beginning (the output written twice contains
        # the stop sequence); kept apart from family=stop
        for b in ['\n"x"', '\nHe said "hi"', '\n"']:
            for t in TAILS_QUOTE[:3]:
                out.append((_cfg(stop=STOP_QUOTE), b + t))
        for b in ["ser\nU", "ser: hi\nU", "r\nUse"]:
            for t in TAILS_USER[1:5]:
                out.append((_cfg(stop=STOP_USER), b + t))
    elif family == "stop-multi":
        for b in small:
            for t in TAILS_TWO + TAILS_USER[1:4]:
                out.append((_cfg(stop=STOP_TWO), b + t))
    elif family == "suffix+stop":
        for b in small:
            for t in TAILS_USER:
                out.append((_cfg(suffix=SUF, stop=STOP_USER), b + SUF + t))
                out.append((_cfg(suffix=SUF, stop=STOP_USER), b + t + SUF))
        for b in small[:6]:
            for t in TAILS_QUOTE:
                out.append((_cfg(suffix=SUF, stop=STOP_QUOTE), b + t))
    elif family == "prefix+stop":
        for p in (P1, P2):
            for b in small:
                for t in TAILS_USER:
                    out.append((_cfg(prefix=p, stop=STOP_USER), p + b + t))
    elif family == "prefix+suffix+stop":
        for p in (P1, P2):
            for b in small[:7]:
                for t in TAILS_USER[:6]:
                    out.append((_cfg(prefix=p, suffix=SUF, stop=STOP_USER), p + b + SUF + t))
                    out.append((_cfg(prefix=p, suffix=SUF, stop=STOP_USER), p + b + t + SUF))
    elif family == "pipe":
        for b in small:
            for t in TAILS_QUOTE[:3]:
                out.append((_cfg(stop=STOP_QUOTE), b + t))
            for t in TAILS_USER[:5]:
                if b + t:
                    out.append((_cfg(stop=STOP_USER), b + t))
            if b:
                out.append((_cfg(), b))
                out.append((_cfg(suffix=SUF), b + SUF))
            out.append((_cfg(prefix=P1, suffix=SUF), P1 + b + SUF))
    seen = set()
    res = []
    for cfg, text in out:
        k = (repr(cfg), text)
        if k not in seen and text != "":
            seen.add(k)
            res.append((cfg, text))
    return res


def _strings(alphabet, upto):
    import itertools
    for n in range(0, upto + 1):
        for t in itertools.product(alphabet, repeat=n):
            yield "".join(t)


def _synth_grid(family, tier):
    """short synthetic prefixes / suffixes / stops over {a, b, c} so that ALL bodies up to a length can be enumerated"""
    L = 5 if tier == "thorough" else 4
    out = []
    if family == "none":
        for b in _strings("ab", L):
            out.append((_cfg(), b))
    elif family == "prefix":
        for p in ("a", "ab", "aa"):
            for b in _strings("abc", L):
                out.append((_cfg(prefix=p), p + b))
    elif family == "prefix-absent":
        for p in ("ab", "aa"):
            for b in _strings("abc", L):
                if not b.startswith(p):
                    out.append((_cfg(prefix=p), b))
    elif family == "suffix":
        for s in ("b", "ab", "bb"):
            for b in _strings("abc", L + 1):
                out.append((_cfg(suffix=s), b))
    elif family == "prefix+suffix":
        for p, s in (("a", "b"), ("ab", "b"), ("a", "ab"), ("b", "b")):
            for b in _strings("abc", L):
                out.append((_cfg(prefix=p, suffix=s), p + b))
    elif family == "stop":
        for st in (["c"], ["bc"], ["cc"], ["abc"]):
            for b in _strings("abc", L + 1):
                out.append((_cfg(stop=st), b))
    elif family == "stop-multi":
        for st in (["c", "b"], ["bc", "ab"], ["bc", "c"], ["cb", "bc"]):
            for b in _strings("abc", L + 1):
                out.append((_cfg(stop=st), b))
    elif family == "suffix+stop":
        for s, st in (("b", ["c"]), ("b", ["ac"]), ("ab", ["cc"]), ("b", ["bc"])):
            for b in _strings("abc", L + 1):
                out.append((_cfg(suffix=s, stop=st), b))
    elif family == "prefix+stop":
        for p, st in (("a", ["c"]), ("ab", ["bc"]), ("a", ["cc"])):
            for b in _strings("abc", L):
                out.append((_cfg(prefix=p, stop=st), p + b))
    elif family == "prefix+suffix+stop":
        for p, s, st in (("a", "b", ["c"]), ("ab", "b", ["ac"]), ("a", "b", ["cc"])):
            for b in _strings("abc", L):
                out.append((_cfg(prefix=p, suffix=s, stop=st), p + b))
    elif family == "pipe":
        for st in (["c"], ["bc"]):
            for b in _strings("abc", L):
                out.append((_cfg(stop=st), b))
    return [(c, t) for c, t in out if t != ""]


FAMILIES = ["none", "prefix", "prefix-absent", "suffix", "prefix+suffix", "stop", "stop-seam", "stop-multi", "suffix+stop", "prefix+stop",
            "prefix+suffix+stop", "pipe"]


def _drives(family):
    if family == "pipe":
        return ["pipe"]
    if family == "prefix-absent":
        # a text that never completes the prefix is only flushed by on_llm_end; the direct path has no such flush and is
        # never used by the repository with a prefix configured
        return ["llm"]
    return ["llm", "push"]


def native_checks(rng, tier):
    import asyncio
    import signal
    thorough = tier == "thorough"
    env = _Env()
    loop = asyncio.new_event_loop()
    per_record_s = 240 if thorough else 45

    def on_alarm(signum, frame):
        raise _Alarm()

    can_alarm = hasattr(signal, "SIGALRM")
    old = None
    if can_alarm:
        try:
            old = signal.signal(signal.SIGALRM, on_alarm)
        except ValueError:          # not in the main thread
            can_alarm = False
    try:
        for family in FAMILIES:
            for grid in ("real", "synth"):
                pairs = _real_grid(family, tier) if grid == "real" else _synth_grid(family, tier)
                if not pairs:
                    continue
                for drive in _drives(family):
                    rec = _Record(family, grid, drive)
                    if grid == "real":
                        ex_upto = (13 if thorough else 10) if drive != "pipe" else (11 if thorough else 9)
                        n_marks, n_random = (9, 400) if thorough else (7, 40)
                        if drive == "pipe" and not thorough:
                            n_marks, n_random = 6, 24
                    else:
                        ex_upto, n_marks, n_random = 12, 0, 0

                    async def go():
                        for cfg, text in pairs:
                            masks, exhaustive = _masks(text, cfg, rng, ex_upto, n_marks, n_random)
                            rec.texts += 1
                            rec.maxlen = max(rec.maxlen, len(text))
                            if exhaustive:
                                rec.exhaustive += 1
                                rec.maxlen_ex = max(rec.maxlen_ex, len(text))
                            await _run_text(env, rec, cfg, text, drive, masks)

                    if can_alarm:
                        signal.setitimer(signal.ITIMER_REAL, per_record_s)
                    try:
                        loop.run_until_complete(go())
                    except _Alarm:
                        rec.fail("X", "timeout", dict(prefix=None, suffix=None, stop=None), "", [], 0,
                                 "the record did not finish within %d s (hang / livelock in the handler?)" % per_record_s)
                    finally:
                        if can_alarm:
                            signal.setitimer(signal.ITIMER_REAL, 0)
                    if grid == "real":
                        bound = ("%d (configuration, text) pairs (production prefixes '  \"' / 'Bot message: \"', suffix '\"', stops "
                                 "'\\nUser', '\"\\n', ['\\nUser','\\nBot'] as the family requires; bot-message-like bodies incl. bodies "
                                 "that start with prefix characters, contain quotes, partial and repeated stop sequences), text length "
                                 "<= %d; ALL 2^(n-1) chunkings for the %d texts of length <= %d, for longer texts all subsets of <= %d "
                                 "cut positions around the pattern boundaries + %d random chunkings (4 densities) + the one-token and "
                                 "char-by-char chunkings; token objects str / GenerationChunk / ChatGenerationChunk / AIMessageChunk"
                                 % (rec.texts, rec.maxlen, rec.exhaustive, rec.maxlen_ex, n_marks, n_random))
                    else:
                        bound = ("%d (configuration, text) pairs: synthetic 1-3 character prefixes / suffixes / stops over {a,b,c} "
                                 "(incl. self-overlapping and multi-character ones), ALL bodies over the alphabet up to length %d "
                                 "(text length <= %d), ALL 2^(n-1) chunkings of every text"
                                 % (rec.texts, 5 if thorough else 4, rec.maxlen))
                    for r in rec.results(bound):
                        yield r
    finally:
        if can_alarm and old is not None:
            signal.signal(signal.SIGALRM, old)
        try:
            loop.close()
        except Exception:
            pass


# =============================================================================================
# the buffered single-call usage (actions/llm/generation.py): buffer the first k non-empty lines, hand them to a waiter, then
# set the pattern, disable buffering and stream the rest
# =============================================================================================
_native_checks_main = native_checks


def _buffered_checks(rng, tier):
    import asyncio
    from nemoguardrails.streaming import StreamingHandler
    PREFIX, SUFFIX = '  "', '"'
    fn = "StreamingHandler[buffered single-call usage: enable_buffering / wait_top_k_nonempty_lines / set_pattern / disable_buffering]"
    failing = []
    n = 0
    seen = set()

    def chunkings(text):
        k = len(text)
        for mask in range(1 << (k - 1)):
            out, start = [], 0
            for i in range(1, k):
                if (mask >> (i - 1)) & 1:
                    out.append(text[start:i])
                    start = i
            out.append(text[start:])
            yield out

    async def collect(handler, sink):
        async for piece in handler:
            sink.append(piece)

    async def run_once(tokens):
        h = StreamingHandler()
        received = []
        consumer = asyncio.create_task(collect(h, received))
        await h.enable_buffering()
        waiter = asyncio.create_task(h.wait_top_k_nonempty_lines(k=2))
        await asyncio.sleep(0)
        header = None
        for tok in tokens:
            await h.push_chunk(tok)
            if header is None:
                await asyncio.sleep(0)
                await asyncio.sleep(0)
                if waiter.done():
                    header = waiter.result()
                    h.set_pattern(prefix=PREFIX, suffix=SUFFIX)
                    await h.disable_buffering()
        await h.on_llm_end(None, run_id=None)
        await asyncio.wait_for(consumer, timeout=5)
        completion = await asyncio.wait_for(h.wait(), timeout=5)
        return header, "".join(received), completion

    cases = [("u\nb", "A\nB\nC"), ("u x\nb", "Hi\n\nyo"), ("u\nb", "one line")]
    if tier == "thorough":
        cases += [("# c\nu\nb", "x\ny"), ("u\n\nb", "A\n")]
    loop = asyncio.new_event_loop()
    try:
        for header_text, message in cases:
            text = header_text + "\n" + PREFIX + message + SUFFIX
            body, last = text[:-1], text[-1]          # the closing quote arrives as its own last token
            all_tok = list(chunkings(body)) if len(body) <= 13 else None
            if all_tok is None:
                all_tok = []
                for _ in range(600 if tier == "thorough" else 220):
                    cuts = sorted(rng.sample(range(1, len(body)), rng.randint(0, min(8, len(body) - 1))))
                    all_tok.append([body[a:b] for a, b in zip([0] + cuts, cuts + [len(body)])])
                all_tok.append([body])
                all_tok.append(list(body))
            for tokens in all_tok:
                tokens = tokens + [last]
                n += 1
                seen.add((header_text, message, tuple(tokens)))
                try:
                    header, streamed, completion = loop.run_until_complete(run_once(tokens))
                    bad = None
                    if streamed != message:
                        bad = "delivered %r, expected %r" % (streamed, message)
                    elif completion != message:
                        bad = "completion %r, expected %r (delivered %r)" % (completion, message, streamed)
                except Exception as ex:
                    bad = "raised %s: %s" % (type(ex).__name__, str(ex)[:120])
                if bad and len(failing) < 4:
                    failing.append(dict(kind="post", function=fn, file=FILE if "FILE" in globals() else "nemoguardrails/streaming.py", property_id="C18",
                                        clause="(B) buffered usage: after the first two non-empty lines were handed to the waiter, the delivered "
                                               "text and `completion` are the rest of the LLM text with prefix and suffix removed - for every "
                                               "tokenisation",
                                        inputs="family=buffered text=%r tokens=%r" % (text, tokens), outcome=bad + " (signature=buffered)"))
    finally:
        loop.close()
    yield dict(function=fn, evaluations=n, distinct=len(seen), failures=len(failing), failing=failing,
               bound="%d LLM texts (two header lines + a quoted multi-line bot message), all tokenisations of texts up to 14 characters, else "
                     "sampled ones; the closing quote always arrives as its own token; the waiter is resumed right after the token that "
                     "completes the third non-empty line" % len(cases))


def native_checks(rng, tier):
    for rec in _native_checks_main(rng, tier):
        yield rec
    for rec in _buffered_checks(rng, tier):
        yield rec
