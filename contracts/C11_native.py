"""C11 — a saved or aged conversation state continues exactly like the live one  (native, bounded side).

Drives the real Colang 2.x runtime (`LLMRails(...).runtime.process_events`, i.e. the real interpreter plus the real
system-action dispatch) over a corpus of small programs whose variables hold sets, nested containers, regexes and
references to flows / actions / events, and checks, for every cut point between two events of a script:

 save/restore  (nemoguardrails/colang/v2_x/runtime/serialization.py :: state_to_json / json_to_state)
   S1  state_to_json succeeds on the reachable state, and calling it does not disturb the live state
   S2  json_to_state succeeds on that JSON
   S3  the restored state has the same structure as the live one (all of it except the two per-event queues and the
       time stamps of the last status change), and objects that are shared in the live state
       (Action / FlowState / FlowHead / Event / FlowConfig objects reachable over several paths, e.g. `state.actions[uid]`
       and a flow variable `$act`) are still one shared object after the restore
   S4  the restored state answers every remaining event sequence of the script with the same outgoing events as the
       live state (up to fresh identifiers); also with a save/restore at *every* cut of the script

 clean-up  (nemoguardrails/colang/v2_x/runtime/statemachine.py :: _clean_up_state)
   A1  with the interpreter's clock advanced by more than the clean-up age (5 s) before any one event (or before every
       event) the outgoing events of the whole script are the same as without idle time
   A2  after every later event the observable queries give the same answers as without idle time:
       CheckValidFlowExistsAction (real action function) for every flow id, CheckForActiveEventMatchAction for the
       script's events, and the tree of flow instances that are not eligible for clean-up (status, activation count,
       parent / child relation, head positions)
   AS  both together: idle time before every event and a save/restore after every event (clean-up and core-library
       families in the quick tier, every family in the thorough tier)

Determinism: the interpreter's clock (`datetime` in statemachine.py / flows.py) is replaced by a counter clock plus the simulated
idle time, and `random` (tie-breaking between equally good competing heads) is seeded identically before every event.
Families `non_json_values`, `shared_lists` and `cleanup_shared_activation` hold the programs on which the pinned tree
violates the property (regex / comparison values, integer dict keys, set-valued action arguments, lists shared between
variables or flows, a flow activated by two parents whose first activator is discarded); they are kept in their own records
so that the other families are failure-free on the pinned tree.

The oracle never re-implements the interpreter: both sides of every comparison are produced by the real code."""
from pyvc.api import *

SER = "nemoguardrails/colang/v2_x/runtime/serialization.py"
SM = "nemoguardrails/colang/v2_x/runtime/statemachine.py"
PROP = "C11"
YAML = 'colang_version: "2.x"\n'

CL_S1 = "state_to_json(state) succeeds for every reachable state (between two events)"
CL_S1B = "state_to_json(state) leaves the live state untouched: the live run continues exactly as without the call"
CL_S2 = "json_to_state(state_to_json(state)) succeeds for every reachable state"
CL_S3 = ("the restored state is structurally equal to the live state and keeps shared references shared "
         "(Action / FlowState / FlowHead / Event objects reachable over several paths stay one object)")
CL_S4 = ("the restored state reacts to every later event sequence exactly like the live state "
         "(same outgoing events up to fresh identifiers)")
CL_S4C = ("a conversation that is saved and restored between every two events produces the same outgoing events as the "
          "live conversation (up to fresh identifiers)")
CL_A1 = ("idle time longer than the clean-up age (5 s) before an event never changes the outgoing events of that and all "
         "later events")
CL_AS = ("idle time longer than the clean-up age (5 s) before every event combined with a save/restore of the state after every "
         "event never changes the outgoing events or the observable queries")
CL_A2 = ("idle time longer than the clean-up age (5 s) never changes later observable queries: CheckValidFlowExistsAction, "
         "CheckForActiveEventMatchAction, and the tree of live / activated flow instances (status, activation, parent, children)")


# =============================================================================================
# scenario corpus:  name, group, program, script (list of steps), [extra scripts]
#   step  ("u", text)                       user utterance finished (with an action uid of its own)
#         ("e", Type, {args})               plain event
#         ("fin"|"sta"|"upd", Action, i, {args})   <Action>Finished/Started/Updated for the i-th Start<Action> sent so far
# =============================================================================================
def _scenarios():
    S = []

    def sc(name, group, src, script, *more):
        S.append(dict(name=name, group=group, src=src.strip("\n") + "\n", scripts=[list(script)] + [list(m) for m in more]))

    # ---------------------------------------------------------------- references to actions
    sc("action_ref_reads_finished_value", "action_refs", '''
flow main
  match UtteranceUserAction.Finished(final_transcript="go")
  start UtteranceBotAction(script="Hello") as $act
  match UtteranceUserAction.Finished(final_transcript="report")
  start UtteranceBotAction(script="heard {$act.final_script} / {$act.status}")
  match UtteranceUserAction.Finished(final_transcript="again")
  start UtteranceBotAction(script="still {$act.final_script} {$act.start_event_arguments.script}")
  match Never()
''', [("u", "go"), ("sta", "UtteranceBotAction", 0, {}), ("fin", "UtteranceBotAction", 0, {"final_script": "Hello (spoken)"}),
      ("u", "report"), ("u", "again")],
       [("u", "go"), ("fin", "UtteranceBotAction", 0, {"final_script": "early"}), ("u", "report"), ("e", "Noop", {}), ("u", "again")])

    sc("action_ref_match_by_reference", "action_refs", '''
flow main
  match Go()
  start TimerBotAction(timer_name="t", duration=3) as $timer
  start UtteranceBotAction(script="one") as $say
  match $timer.Finished() as $done
  $uid_same = $done.action.uid == $timer.uid
  send Out(name=$done.action.name, uid_same=$uid_same, fin="{$timer.status}", ok=$done.is_success)
  match $say.Finished() as $said
  send Out2(script=$said.final_script, via_action=$say.final_script, n=len($said.action.context))
  match Never()
''', [("e", "Go", {}), ("sta", "TimerBotAction", 0, {}), ("fin", "UtteranceBotAction", 0, {"final_script": "one!"}),
      ("fin", "TimerBotAction", 0, {}), ("e", "Noop", {})],
       [("e", "Go", {}), ("fin", "TimerBotAction", 0, {}), ("fin", "UtteranceBotAction", 0, {"final_script": "one!"})])

    sc("action_ref_updated_events", "action_refs", '''
flow main
  match Go()
  start VisualFormSceneAction(prompt="p") as $form
  match $form.InputUpdated() as $upd
  send Out(v=$upd.interim_inputs, p=$form.start_event_arguments.prompt)
  match $form.InputUpdated() as $upd2
  match Ask()
  send Out2(v1=$upd.interim_inputs[0].value, v2=$upd2.interim_inputs[0].value, st="{$form.status}", same=$upd2.action.uid)
  send $form.Stop()
  match $form.Finished()
  send Out3(st="{$form.status}", ok=$form.is_success, n=len($form.context))
  match Never()
''', [("e", "Go", {}), ("sta", "VisualFormSceneAction", 0, {}),
      ("upd", "VisualFormSceneAction", 0, {"_suffix": "Input", "interim_inputs": [{"id": "a", "value": "1"}]}),
      ("upd", "VisualFormSceneAction", 0, {"_suffix": "Input", "interim_inputs": [{"id": "a", "value": "12"}]}),
      ("e", "Ask", {}), ("fin", "VisualFormSceneAction", 0, {"is_success": False}), ("e", "Noop", {})])

    sc("action_ref_passed_to_child_flow", "action_refs", '''
flow reporter $a $label
  match $a.Finished()
  send Report(label=$label, script=$a.final_script, st="{$a.status}")

flow main
  match Go()
  start UtteranceBotAction(script="x") as $act
  start reporter(a=$act, label="first") as $r
  match Again()
  start reporter(a=$act, label="second")
  match Tell()
  $same = $r.a.uid == $act.uid
  send Out(s=$act.final_script, rs="{$r.status}", same=$same)
  match Never()
''', [("e", "Go", {}), ("e", "Again", {}), ("fin", "UtteranceBotAction", 0, {"final_script": "x!"}), ("e", "Tell", {})],
       [("e", "Go", {}), ("fin", "UtteranceBotAction", 0, {"final_script": "x!"}), ("e", "Again", {}), ("e", "Tell", {})])

    sc("action_stop_on_flow_end", "action_refs", '''
flow talker
  start UtteranceBotAction(script="long") as $a
  start GestureBotAction(gesture="wave") as $g
  match Enough()

flow main
  match Go()
  start talker as $t
  match $t.Finished()
  send Out(a="{$t.a.status}", g="{$t.g.status}")
  match Never()
''', [("e", "Go", {}), ("sta", "UtteranceBotAction", 0, {}), ("fin", "GestureBotAction", 0, {}), ("e", "Enough", {}),
      ("fin", "UtteranceBotAction", 0, {"is_success": False}), ("e", "Noop", {})],
       [("e", "Go", {}), ("e", "Enough", {}), ("fin", "UtteranceBotAction", 0, {}), ("fin", "GestureBotAction", 0, {})])

    sc("await_action_with_ref", "action_refs", '''
flow say $text
  await UtteranceBotAction(script=$text) as $action
  return $action.final_script

flow main
  match Go()
  $r = await say "hi"
  send Out(r=$r)
  start say "two" as $s
  match $s.Finished()
  send Out2(x=$s.action.final_script, n=$s.text)
  match Never()
''', [("e", "Go", {}), ("sta", "UtteranceBotAction", 0, {}), ("fin", "UtteranceBotAction", 0, {"final_script": "hi."}),
      ("fin", "UtteranceBotAction", 1, {"final_script": "two."}), ("e", "Noop", {})])

    # ---------------------------------------------------------------- references to events
    sc("event_ref_user_action", "event_refs", '''
flow main
  match UtteranceUserAction.Started() as $st
  send Out(name=$st.action.name, st="{$st.action.status}")
  match $st.action.Finished() as $fin
  $same = $fin.action.uid == $st.action.uid
  send Out2(t=$fin.final_transcript, st0="{$st.action.status}", st="{$fin.action.status}", same=$same)
  match Later()
  send Out3(t=$fin.final_transcript, st="{$fin.action.status}", args=$fin.arguments.final_transcript)
  match Never()
''', [("e", "UtteranceUserActionStarted", {"action_uid": "ua-77"}),
      ("e", "UtteranceUserActionFinished", {"action_uid": "ua-other", "final_transcript": "no"}),
      ("e", "UtteranceUserActionFinished", {"action_uid": "ua-77", "final_transcript": "yes", "is_success": True}),
      ("e", "Later", {})])

    sc("event_ref_payload_containers", "event_refs", '''
flow main
  match Data() as $e
  $first = $e.items[0]
  send Out(first=$first, n=len($e.items), k=$e.meta.k)
  match Next()
  send Out2(items=$e.items, deep=$e.meta.deep.x[1], name=$e.name)
  match Data(meta={"k": "v2"}) as $e2
  send Out3(a=$e.meta.k, b=$e2.meta.k, c=$e2.items)
  match Never()
''', [("e", "Data", {"items": [1, "two", [3.5, None]], "meta": {"k": "v", "deep": {"x": [True, False]}}}), ("e", "Next", {}),
      ("e", "Data", {"items": [], "meta": {"k": "v1"}}), ("e", "Data", {"items": [{}], "meta": {"k": "v2"}}), ("e", "Noop", {})])

    sc("event_ref_internal_flow_event", "event_refs", '''
flow worker $n
  match Work()
  $result = "done-{$n}"
  return $result

flow observer
  match FlowStarted(flow_id="worker") as $started
  send Out(n=$started.flow.n, st="{$started.flow.status}")
  match FlowFinished(flow_id="worker") as $finished
  $same = $finished.flow.uid == $started.flow.uid
  send Out2(r=$finished.flow.result, rv=$finished.return_value, same=$same, st="{$started.flow.status}")
  match Later()
  send Out3(r=$started.flow.result, st="{$finished.flow.status}")

flow main
  start observer
  match Go()
  start worker(n=1)
  match Never()
''', [("e", "Go", {}), ("e", "Noop", {}), ("e", "Work", {}), ("e", "Later", {})])

    sc("send_event_with_ref", "event_refs", '''
flow main
  match Go()
  send StartUtteranceBotAction(script="raw") as $ev
  match UtteranceBotActionFinished(action_uid=$ev.action_uid) as $fin
  send Out(s=$fin.final_script, a=$ev.script)
  match Never()
''', [("e", "Go", {}), ("fin", "UtteranceBotAction", 0, {"final_script": "raw."}), ("e", "Noop", {})])

    # ---------------------------------------------------------------- references to flows
    sc("flow_ref_reads_child_variables", "flow_refs", '''
flow counter
  $count = 0
  while $count < 3
    match Tick()
    $count = $count + 1
  send CounterDone(c=$count)

flow main
  start counter as $c
  match Peek()
  send Out(c=$c.count, st="{$c.status}")
  match $c.Finished()
  send Out2(c=$c.count, st="{$c.status}")
  match Peek()
  send Out3(c=$c.count, st="{$c.status}")
  match Never()
''', [("e", "Tick", {}), ("e", "Peek", {}), ("e", "Tick", {}), ("e", "Tick", {}), ("e", "Peek", {}), ("e", "Tick", {})],
       [("e", "Peek", {}), ("e", "Tick", {}), ("e", "Tick", {}), ("e", "Tick", {}), ("e", "Tick", {}), ("e", "Peek", {})])

    sc("flow_ref_context_update_through_event", "flow_refs", '''
flow intent a
  match A()

flow tagger
  match FlowFinished(flow_id="intent a") as $event
  ($event.flow.context.update({"tag": "tagged"}))
  send Tagged(t=$event.flow.tag)

flow main
  activate tagger
  start intent a as $ia
  match Q()
  send Out(tag=$ia.tag, st="{$ia.status}")
  match Never()
''', [("e", "Noop", {}), ("e", "A", {}), ("e", "Q", {})])

    sc("flow_ref_passed_as_parameter", "flow_refs", '''
flow job
  match JobStep()
  $phase = "one"
  match JobStep()
  $phase = "two"

flow watcher $f
  match Watch()
  send W(phase=$f.phase, st="{$f.status}")
  match $f.Finished()
  send WDone(phase=$f.phase)

flow main
  start job as $j
  start watcher(f=$j) as $w
  match End()
  $same = $w.f.uid == $j.uid
  send Out(j="{$j.status}", w="{$w.status}", same=$same)
  match Never()
''', [("e", "JobStep", {}), ("e", "Watch", {}), ("e", "JobStep", {}), ("e", "End", {})],
       [("e", "Watch", {}), ("e", "JobStep", {}), ("e", "JobStep", {}), ("e", "End", {})])

    sc("return_values_and_nested_await", "flow_refs", '''
flow inner $x
  match In()
  $out = [$x, {"k": $x}]
  return $out

flow outer $x
  $v = await inner($x)
  $w = await inner("b")
  return {"first": $v, "second": $w}

flow main
  $res = await outer("a")
  send Out(res=$res, k=$res.first[1].k)
  match Never()
''', [("e", "In", {}), ("e", "In", {}), ("e", "In", {})])

    sc("shared_context_child", "flow_refs", '''
flow a
  $shared = "set-by-a"
  match More()
  $shared = "set-again"

flow main
  $shared = "init"
  $own = 1
  $instance_uid = uid()
  send StartFlow(flow_id="a", flow_instance_uid=$instance_uid, context=$self.context)
  match FlowStarted(flow_instance_uid=$instance_uid)
  match Q()
  send Out(s=$shared)
  match Q()
  send Out2(s=$shared)
  match Never()
''', [("e", "Q", {}), ("e", "More", {}), ("e", "Q", {})])

    sc("activated_flows_with_parameters", "flow_refs", '''
flow greeter $name $times=1
  match Hi(to=$name)
  send Hello(name=$name, times=$times)

flow main
  activate greeter("ann")
  activate greeter("bob", 2)
  activate greeter(name="ann")
  match Stop()
  send FinishFlow(flow_id="greeter", name="bob", deactivate=True)
  match Never()
''', [("e", "Hi", {"to": "ann"}), ("e", "Hi", {"to": "bob"}), ("e", "Hi", {"to": "ann"}), ("e", "Stop", {}), ("e", "Hi", {"to": "bob"}),
      ("e", "Hi", {"to": "ann"})])

    sc("or_and_groups_and_when", "flow_refs", '''
flow wait a
  match A()

flow wait b
  match B()

flow main
  match Go()
  when wait a
    send GotA()
  or when wait b
    send GotB()
  or when C()
    send GotC()
  match (X() and Y()) or Z()
  send Group()
  start wait a as $wa and wait b as $wb
  match $wa.Finished() and $wb.Finished()
  send Both(a="{$wa.status}", b="{$wb.status}")
  match Never()
''', [("e", "Go", {}), ("e", "B", {}), ("e", "Y", {}), ("e", "X", {}), ("e", "A", {}), ("e", "B", {})],
       [("e", "Go", {}), ("e", "C", {}), ("e", "Z", {}), ("e", "B", {}), ("e", "A", {})],
       [("e", "A", {}), ("e", "Go", {}), ("e", "A", {}), ("e", "X", {}), ("e", "Z", {}), ("e", "A", {}), ("e", "B", {})])

    sc("flow_failure_and_abort", "flow_refs", '''
flow fragile
  match Ok1()
  match Ok2()

flow guard
  start fragile as $f
  when $f.Failed()
    send Failed(st="{$f.status}")
  or when $f.Finished()
    send Finished(st="{$f.status}")

flow main
  match Go()
  start guard as $g
  match Kill()
  send StopFlow(flow_id="fragile")
  match Q()
  send Out(g="{$g.status}", f="{$g.f.status}")
  match Never()
''', [("e", "Go", {}), ("e", "Ok1", {}), ("e", "Kill", {}), ("e", "Q", {})],
       [("e", "Go", {}), ("e", "Ok1", {}), ("e", "Ok2", {}), ("e", "Kill", {}), ("e", "Q", {})])

    # ---------------------------------------------------------------- the standard library (core.co) on top of all that
    sc("core_library_conversation", "core_library", '''
import core

flow greeting
  user said "hi" or user said "hello"
  bot say "Hello there"
  user said something as $u
  bot say "You said {$u.transcript}"

flow fallback
  user said something unexpected as $x
  bot say "unexpected: {$x.transcript}"

flow report
  global $last_bot_script
  global $bot_talking_state
  match Report()
  send Out(s=$last_bot_script, talking=$bot_talking_state)

flow main
  activate tracking bot talking state
  activate greeting
  activate fallback
  activate report
  match Never()
''', [("u", "nonsense"), ("sta", "UtteranceBotAction", 0, {}), ("e", "Report", {}),
      ("fin", "UtteranceBotAction", 0, {"final_script": "unexpected: nonsense"}), ("u", "hi"),
      ("fin", "UtteranceBotAction", 1, {"final_script": "Hello there"}), ("u", "what"), ("e", "Report", {})])

    # ---------------------------------------------------------------- container values
    sc("nested_containers", "containers", '''
flow main
  $d = {"k": [1, 2, {"z": 3}], "n": {"m": [1.5, None, True]}, "e": {}, "l": []}
  $l = [[1, 2], [], ["a", ["b", {"c": "d"}]]]
  $u = "unicode äö 中 \\"quoted\\""
  match E1()
  send Out(z=$d.k[2].z, m=$d.n.m, l=$l[2][1][1].c, u=$u, n=len($l), t=type($d.n.m[2]), f=$d.n.m[0] * 2)
  match E2()
  ($d.update({"new": [$l[0], $d.k]}))
  $l2 = $l + [$d]
  send Out2(d=$d, l2=$l2)
  match E3()
  $has = "k" in $d
  $empty = $d.e == {} and $d.l == []
  send Out3(x=$d.new[1][2].z, y=$l2[3].e, has=$has, e=$empty)
  match Never()
''', [("e", "E1", {}), ("e", "E2", {}), ("e", "E3", {})])

    sc("set_values", "containers", '''
flow main
  $s = {"a", "b"}
  $nums = {1, 2, 3}
  $holder = {"tags": {"x", "y"}, "list_of_sets": [{"p"}, {"q", "r"}]}
  match E1()
  $a = "a" in $s
  $c = "c" in $s
  $hx = "x" in $holder.tags
  send Out(a=$a, c=$c, n=len($nums), t=type($s), hx=$hx, k=len($holder.list_of_sets[1]))
  match E2()
  ($s.add("c"))
  ($nums.discard(2))
  send Out2(s=$s, nums=$nums, tags=$holder.tags)
  match E3()
  $c = "c" in $s
  $two = 2 in $nums
  send Out3(c=$c, two=$two, t=type($holder.tags), t2=type($holder.list_of_sets[0]))
  match Never()
''', [("e", "E1", {}), ("e", "E2", {}), ("e", "E3", {}), ("e", "Noop", {})])

    sc("global_variables", "containers", '''
flow setter
  global $g
  match Set() as $e
  $g = {"v": $e.v, "hist": $g.hist + [$e.v]}

flow main
  global $g
  $g = {"v": 0, "hist": []}
  activate setter
  match Q()
  send Out(g=$g)
  match Q()
  send Out2(v=$g.v, h=$g.hist)
  match Never()
''', [("e", "Set", {"v": 1}), ("e", "Q", {}), ("e", "Set", {"v": {"deep": [2]}}), ("e", "Q", {})])

    sc("flow_parameters_with_containers", "containers", '''
flow show $cfg $items=[1, 2] $trigger="a"
  match Show(t=$trigger)
  send Shown(name=$cfg.name, first=$items[0], n=len($items), opt=$cfg.opts.x)

flow main
  $cfg = {"name": "n1", "opts": {"x": [1, {"y": 2}]}}
  start show($cfg)
  start show(cfg={"name": "n2", "opts": {"x": None}}, items=["a"], trigger="b")
  match Show(t="b")
  ($cfg.update({"name": "changed"}))
  match Q()
  send Out(n=$cfg.name)
  match Never()
''', [("e", "Noop", {}), ("e", "Show", {"t": "a"}), ("e", "Show", {"t": "b"}), ("e", "Q", {})],
       [("e", "Show", {"t": "b"}), ("e", "Q", {}), ("e", "Show", {"t": "a"})])

    sc("numbers_and_strings", "containers", '''
flow main
  $i = 7
  $f = 0.1
  $big = 12345678901234567890
  $neg = -3
  $b = False
  $n = None
  $s = ""
  $m = """multi
line"""
  match E1()
  $nb = not $b
  $nn = $n == None
  $es = $s == ""
  send Out(i=$i + 1, f=$f + 0.2, big=$big * 2, neg=$neg, b=$nb, n=$nn, s=$es, m=$m, ti=type($i), tf=type($f), tb=type($b))
  match E2()
  send Out2(t="{$i} {$f} {$b} {$n}", div=$i / 2, idiv=$i // 2)
  match Never()
''', [("e", "E1", {}), ("e", "E2", {})])

    sc("action_with_container_arguments", "containers", '''
flow main
  match Go()
  start VisualChoiceSceneAction(prompt="pick", options=[{"id": "a", "text": "A"}, {"id": "b", "text": "B"}], support_prompts=[]) as $choice
  match $choice.Finished() as $fin
  send Out(n=len($choice.start_event_arguments.options), first=$choice.start_event_arguments.options[0].id, picked=$fin.choice[0])
  match Q()
  send Out2(o=$choice.start_event_arguments.options, c=$choice.choice)
  match Never()
''', [("e", "Go", {}), ("sta", "VisualChoiceSceneAction", 0, {}), ("fin", "VisualChoiceSceneAction", 0, {"choice": ["b"]}), ("e", "Q", {})])

    sc("action_with_set_argument", "non_json_values", '''
flow main
  match Go()
  start TagAction(tags={"x", "y"}, label="l") as $t
  match $t.Finished()
  send Out(n=len($t.start_event_arguments.tags), t=type($t.start_event_arguments.tags))
  match Never()
''', [("e", "Go", {}), ("fin", "TagAction", 0, {}), ("e", "Noop", {})])

    sc("dict_with_integer_keys", "non_json_values", '''
flow main
  $k = {1: "one", 2: "two"}
  match E1()
  send Out(k1=$k[1], n=len($k))
  match Never()
''', [("e", "Noop", {}), ("e", "E1", {})])

    sc("list_shared_by_two_variables", "shared_lists", '''
flow main
  $l = [1]
  $m = $l
  match E1()
  ($l.append(2))
  send Out(m=$m, l=$l)
  match Never()
''', [("e", "Noop", {}), ("e", "E1", {})])

    sc("list_shared_with_child_flow", "shared_lists", '''
flow collector $p
  match Add() as $e
  ($p.append($e.v))
  send Added(p=$p)

flow main
  $l = ["start"]
  start collector(p=$l)
  match Q()
  send Out(l=$l)
  match Never()
''', [("e", "Add", {"v": "x"}), ("e", "Q", {})], [("e", "Noop", {}), ("e", "Add", {"v": "x"}), ("e", "Q", {})])

    # ---------------------------------------------------------------- regexes and other non-JSON values
    sc("regex_in_variable", "non_json_values", '''
flow main
  $r = regex("^a.*z$")
  match E1()
  send Out(is_r=is_regex($r))
  match Word(w=$r)
  send Matched()
  match Never()
''', [("e", "E1", {}), ("e", "Word", {"w": "abc"}), ("e", "Word", {"w": "abcz"})])

    sc("regex_as_flow_parameter", "non_json_values", '''
flow listen $pattern
  match UtteranceUserAction.Finished(final_transcript=$pattern) as $e
  send Heard(t=$e.final_transcript)

flow main
  activate listen(regex("(?i)hello|hi"))
  match Never()
''', [("u", "bye"), ("u", "Hello there"), ("u", "hi")])

    sc("comparison_expression_in_variable", "non_json_values", '''
flow main
  $small = less_than(5)
  match E1()
  match Num(v=$small)
  send Small()
  match Never()
''', [("e", "E1", {}), ("e", "Num", {"v": 9}), ("e", "Num", {"v": 2})])

    # ---------------------------------------------------------------- clean-up of long finished flow instances
    sc("cleanup_flow_exists_query", "cleanup", '''
flow helper
  send HelperRan()

flow run handler
  match UtteranceUserAction.Finished(final_transcript="run")
  await helper
  send RunDone()

flow check handler
  match UtteranceUserAction.Finished(final_transcript="check")
  $exists = await CheckValidFlowExistsAction(flow_id="helper")
  $defined = await CheckFlowDefinedAction(flow_id="helper")
  send CheckResult(exists=$exists, defined=$defined)

flow main
  activate run handler
  activate check handler
  match Never()
''', [("u", "check"), ("u", "run"), ("u", "check"), ("u", "noop"), ("u", "check"), ("u", "run"), ("u", "check")])

    sc("cleanup_finished_child_reference", "cleanup", '''
flow task $n
  match Step()
  $result = {"n": $n, "log": ["s1"]}
  match Step()
  ($result.log.append("s2"))

flow main
  start task(1) as $t1
  match $t1.Finished()
  start task(2) as $t2
  match Q()
  send Out(r1=$t1.result, s1="{$t1.status}", s2="{$t2.status}", n2=$t2.n)
  match $t2.Finished()
  send Out2(r2=$t2.result, r1=$t1.result.log)
  match Q()
  send Out3(s1="{$t1.status}", s2="{$t2.status}")
  match Never()
''', [("e", "Step", {}), ("e", "Step", {}), ("e", "Q", {}), ("e", "Step", {}), ("e", "Step", {}), ("e", "Q", {})])

    sc("cleanup_repeated_helper_and_active_match_query", "cleanup", '''
flow ask $q
  send Asked(q=$q)
  match Answer() as $a
  return $a.text

flow main
  match Go()
  $a1 = await ask "one"
  $waiting = await CheckForActiveEventMatchAction(event_name="Answer")
  send Out(a1=$a1, waiting=$waiting)
  match Go()
  $a2 = await ask "two"
  send Out2(a1=$a1, a2=$a2)
  match Never()
''', [("e", "Go", {}), ("e", "Answer", {"text": "x"}), ("e", "Noop", {}), ("e", "Go", {}), ("e", "Answer", {"text": "y"}), ("e", "Go", {})])

    sc("cleanup_stopped_and_failed_children", "cleanup", '''
flow child $n
  match Never()

flow parent
  start child(1) as $c1
  start child(2) as $c2
  match Cut()
  send StopFlow(flow_instance_uid=$c1.uid)
  match Cut()
  send Out(c1="{$c1.status}", c2="{$c2.status}")
  match End()

flow main
  match Go()
  start parent as $p
  match $p.Finished()
  send Done(p="{$p.status}", c2="{$p.c2.status}")
  match Go()
  start parent as $p2
  match Q()
  send Out2(p="{$p.status}", p2="{$p2.status}")
  match Never()
''', [("e", "Go", {}), ("e", "Cut", {}), ("e", "Cut", {}), ("e", "End", {}), ("e", "Go", {}), ("e", "Q", {}), ("e", "Cut", {})])

    sc("cleanup_scopes_and_late_action_events", "cleanup", '''
flow speak $text
  await UtteranceBotAction(script=$text)

flow main
  match Go()
  when speak "a"
    send SaidA()
  or when Skip()
    send Skipped()
  match Go()
  start speak "b" as $b
  match Q()
  send Out(b="{$b.status}")
  match Never()
''', [("e", "Go", {}), ("e", "Skip", {}), ("fin", "UtteranceBotAction", 0, {}), ("e", "Go", {}),
      ("fin", "UtteranceBotAction", 1, {}), ("e", "Q", {})],
       [("e", "Go", {}), ("fin", "UtteranceBotAction", 0, {}), ("e", "Skip", {}), ("e", "Go", {}), ("e", "Q", {}),
        ("fin", "UtteranceBotAction", 1, {}), ("e", "Q", {})])

    sc("cleanup_activated_flow_restarts", "cleanup", '''
flow pinger
  match Ping() as $p
  await helper($p.n)

flow helper $n
  send Pong(n=$n)

flow main
  activate pinger
  match Q()
  $e1 = await CheckValidFlowExistsAction(flow_id="helper")
  $e2 = await CheckValidFlowExistsAction(flow_id="pinger")
  $e3 = await CheckValidFlowExistsAction(flow_id="nope")
  send Out(helper=$e1, pinger=$e2, nope=$e3)
  match Never()
''', [("e", "Ping", {"n": 1}), ("e", "Ping", {"n": 2}), ("e", "Q", {}), ("e", "Ping", {"n": 3})],
       [("e", "Q", {}), ("e", "Ping", {"n": 1})])

    sc("cleanup_flow_activated_by_two_parents", "cleanup_shared_activation", '''
flow handler
  match Ping()
  send Pong()

flow a
  activate handler
  match StopA()

flow b
  activate handler
  match StopB()

flow main
  start a
  start b
  match Never()
''', [("e", "Ping", {}), ("e", "StopA", {}), ("e", "Ping", {}), ("e", "StopB", {}), ("e", "Ping", {})],
       [("e", "StopB", {}), ("e", "Ping", {}), ("e", "StopA", {}), ("e", "Ping", {})])
    # ---------------------------------------------------------------- an action shared by two flows outlives its first owner
    sc("shared_action_outlives_first_owner", "action_refs", '''
flow short
  match UtteranceUserAction.Finished(final_transcript="go")
  start UtteranceBotAction(script="hello") as $act
  match UtteranceUserAction.Finished(final_transcript="short done")

flow long
  match UtteranceUserAction.Finished()
  start UtteranceBotAction(script="hello") as $act
  match UtteranceUserAction.Finished(final_transcript="long done")
  start UtteranceBotAction(script="bye {$act.status}")

flow main
  start short
  start long
  match Never()
''', [("u", "go"), ("u", "short done"), ("e", "Noop", {}), ("u", "long done"), ("e", "Noop", {})],
       [("u", "go"), ("sta", "UtteranceBotAction", 0, {}), ("u", "short done"), ("u", "long done"), ("fin", "UtteranceBotAction", 0, {"final_script": "hello"})])

    return S


# =============================================================================================
# helpers (no imports of the repository at module level)
# =============================================================================================
import re as _re

_UUID = _re.compile(r"[0-9a-fA-F]{8}-[0-9a-fA-F]{4}-[0-9a-fA-F]{4}-[0-9a-fA-F]{4}-[0-9a-fA-F]{12}")
_UUID_ = _re.compile(r"[0-9a-fA-F]{8}_[0-9a-fA-F]{4}_[0-9a-fA-F]{4}_[0-9a-fA-F]{4}_[0-9a-fA-F]{12}")
_DROP = ("uid", "event_created_at", "source_uid")
_AGE = 6.0   # seconds of simulated idle time, > the clean-up age of 5 s


def _no_ids(text):
    """fresh identifiers replaced by <id> (messages stay the same from run to run)"""
    return _UUID_.sub("<id>", _UUID.sub("<id>", text))


def _short(x, n=1500):
    s = x if isinstance(x, str) else repr(x)
    return s if len(s) <= n else s[:n] + "..."


def _canon_trace(trace):
    """normal form of a list of per-step results: identifiers are numbered by first appearance, sets sorted,
    bookkeeping keys of outgoing events dropped; type sensitive (True != 1 != 1.0)"""
    ids = {}

    def sub(s):
        return _UUID.sub(lambda mo: ids.setdefault(mo.group(0).lower(), "<id%d>" % (len(ids) + 1)), s)

    def c(v):
        if isinstance(v, str):
            return sub(v)
        if v is None or isinstance(v, (bool, int, float)):
            return "%s:%r" % (type(v).__name__, v)
        if isinstance(v, dict):
            return {"dict": sorted(((c(k) if isinstance(k, str) else "%s:%r" % (type(k).__name__, k)), c(x)) for k, x in v.items())}
        if isinstance(v, (list, tuple)):
            return [type(v).__name__] + [c(x) for x in v]
        if isinstance(v, (set, frozenset)):
            return ["set"] + sorted(repr(c(x)) for x in v)
        return sub("%s:%r" % (type(v).__name__, v))

    out = []
    for stp in trace:
        if isinstance(stp, str):
            out.append(sub(stp))
        else:
            out.append([c({k: v for k, v in e.items() if k not in _DROP}) for e in stp])
    return out


def _show_trace(canon, start=0):
    def ev(e):
        if isinstance(e, dict):
            d = dict(e["dict"])
            t = d.pop("type", "?")
            d = {k: v for k, v in d.items() if not k.startswith("action_info")}
            return "%s%s" % (t, _plain(d) if d else "")
        return str(e)

    def _plain(x):
        if isinstance(x, dict) and "dict" in x and len(x) == 1:
            return "{" + ", ".join("%s: %s" % (k, _plain(v)) for k, v in x["dict"]) + "}"
        if isinstance(x, dict):
            return "{" + ", ".join("%s: %s" % (k, _plain(v)) for k, v in x.items()) + "}"
        if isinstance(x, list):
            return "[" + ", ".join(_plain(v) for v in x[1:]) + "]" if x and x[0] in ("list", "tuple", "set") else repr(x)
        if isinstance(x, str) and ":" in x and x.split(":", 1)[0] in ("int", "float", "bool", "NoneType"):
            return x.split(":", 1)[1]
        return repr(x)
    return "; ".join("#%d %s" % (i, s if isinstance(s, str) else "[" + ", ".join(ev(e) for e in s) + "]")
                     for i, s in enumerate(canon) if i >= start)


class _Env:
    """everything imported from the repository under test, the patched clock and the event loop"""

    def __init__(self):
        import asyncio
        import contextlib
        import random
        import datetime as dtm
        import io
        import threading
        from nemoguardrails import LLMRails, RailsConfig
        from nemoguardrails.actions.v2_x.generation import LLMGenerationActionsV2dotx
        from nemoguardrails.colang.v2_x.runtime import flows as fl
        from nemoguardrails.colang.v2_x.runtime import statemachine as sm
        from nemoguardrails.colang.v2_x.runtime.serialization import json_to_state, state_to_json
        from tests.utils import FakeLLM
        self.LLMRails, self.RailsConfig, self.FakeLLM = LLMRails, RailsConfig, FakeLLM
        self.gen = LLMGenerationActionsV2dotx
        self.fl, self.sm = fl, sm
        self.state_to_json, self.json_to_state = state_to_json, json_to_state
        self.io, self.contextlib, self.threading = io, contextlib, threading
        self.random = random
        self._random_state = random.getstate()
        self.loop = asyncio.new_event_loop()
        self.offset = dtm.timedelta(0)
        env = self
        real = dtm.datetime

        t0 = real.now()
        self.ticks = 0

        class IdleClock(real):
            """the clock read by _clean_up_state and by the FlowState.status setter: a deterministic clock (events arrive
            microseconds apart, whatever the load of the machine) plus the simulated idle time"""

            @classmethod
            def now(cls, tz=None):
                env.ticks += 1
                return t0 + env.offset + dtm.timedelta(microseconds=env.ticks)

        self._saved = (sm.datetime, fl.datetime, threading.excepthook)
        sm.datetime = IdleClock
        fl.datetime = IdleClock
        threading.excepthook = lambda args: None   # no network: the background fetch of an embedding model fails quietly
        self.timedelta = dtm.timedelta

    def close(self):
        self.sm.datetime, self.fl.datetime, self.threading.excepthook = self._saved
        self.random.setstate(self._random_state)
        try:
            self.loop.close()
        except Exception:
            pass

    def idle(self, seconds):
        self.offset = self.offset + self.timedelta(seconds=seconds)

    def quiet(self):
        return self.contextlib.redirect_stdout(self.io.StringIO())

    def rails(self, src):
        with self.quiet():
            return self.LLMRails(config=self.RailsConfig.from_content(src, YAML), llm=self.FakeLLM(responses=[]))

    def process(self, rails, state, event):
        with self.quiet():
            out, state = self.loop.run_until_complete(rails.runtime.process_events(events=[event], state=state, blocking=True))
        return out, state

    def call(self, coro):
        return self.loop.run_until_complete(coro)


def _materialise(step, seen, counter):
    """the concrete input event of a script step, given all outgoing events seen so far in this run (None: not applicable)"""
    kind = step[0]
    if kind == "u":
        counter[0] += 1
        return {"type": "UtteranceUserActionFinished", "final_transcript": step[1], "action_uid": "user-action-%d" % counter[0],
                "is_success": True}
    if kind == "e":
        ev = {"type": step[1]}
        ev.update(step[2])
        return ev
    name, idx, args = step[1], step[2], dict(step[3])
    starts = [e for e in seen if e.get("type") == "Start" + name]
    if idx >= len(starts):
        return None
    suffix = {"fin": "Finished", "sta": "Started", "upd": args.pop("_suffix", "") + "Updated"}[kind]
    ev = {"type": name + suffix, "action_uid": starts[idx]["action_uid"]}
    if kind == "fin":
        ev["is_success"] = True
    ev.update(args)
    return ev


class _Run:
    """one conversation: `trace[i]` is the list of outgoing events of step i, or a string for a skipped / crashed step"""

    def __init__(self, env, rails, script, trace=None, state=None, counter=None):
        self.env, self.rails, self.script = env, rails, script
        self.trace = list(trace or [])
        self.state = state if state is not None else {}
        self.counter = counter or [0]
        self.dead = False

    def seen(self):
        return [e for s in self.trace if not isinstance(s, str) for e in s]

    def step(self):
        i = len(self.trace)
        if self.dead:
            self.trace.append("not run (conversation crashed earlier)")
            return
        ev = _materialise(self.script[i], self.seen(), self.counter)
        if ev is None:
            self.trace.append("skipped (the action this step refers to was never started)")
            return
        try:
            # the interpreter breaks ties between equally good competing heads with `random`: same choices in every run
            self.env.random.seed(1000 + i)
            out, self.state = self.env.process(self.rails, self.state, ev)
            self.trace.append([dict(e) for e in out])
        except Exception as ex:
            self.dead = True
            self.trace.append("RAISED %s: %s" % (type(ex).__name__, str(ex)[:160]))

    def finish(self):
        while len(self.trace) < len(self.script):
            self.step()
        return self


# ---------------------------------------------------------------------------------------------
# S3: lock-step structural comparison of the live and the restored state, with sharing
# ---------------------------------------------------------------------------------------------
def _state_diff(env, live, restored, limit=3):
    import dataclasses
    import enum
    import functools
    from collections import deque
    fl = env.fl
    shared_types = (fl.Action, fl.FlowState, fl.FlowHead, fl.Event, fl.FlowConfig)
    # not compared, because no later event can tell the difference: the two queues are re-initialised at the start of every
    # run_to_completion, and the time stamp of the last status change is read by the clean-up only (which, by the second half
    # of the property, never changes behaviour; save/restore combined with idle time is checked behaviourally)
    skip_fields = {"State": ("internal_events", "outgoing_events"), "FlowState": ("status_updated",)}
    fwd, back, first = {}, {}, {}
    out = []

    def p(path):
        return "state" + "".join(path)

    def walk(a, b, path):
        if len(out) >= limit:
            return
        if isinstance(a, functools.partial) or isinstance(b, functools.partial):
            if not (isinstance(a, functools.partial) and isinstance(b, functools.partial)):
                out.append("%s: callback %r in the live state, %r in the restored state" % (p(path), type(a).__name__, type(b).__name__))
            return
        if type(a) is not type(b) and not (isinstance(a, dict) and isinstance(b, dict)):
            # (dict subclasses: the expression evaluator wraps dicts into its AttributeDict on every read anyway)
            # the clock subclass is an artefact of the harness
            import datetime as dtm
            if isinstance(a, dtm.datetime) and isinstance(b, dtm.datetime):
                if a != b:
                    out.append("%s: %r in the live state, %r in the restored state" % (p(path), a, b))
                return
            out.append("%s: %s %s in the live state, %s %s in the restored state" % (p(path), type(a).__name__, _short(a, 80),
                                                                                   type(b).__name__, _short(b, 80)))
            return
        if a is None or isinstance(a, (str, bool, int, float)):
            if a != b and not (a != a and b != b):
                out.append("%s: %r in the live state, %r in the restored state" % (p(path), a, b))
            return
        if isinstance(a, shared_types):
            if id(a) in fwd:
                if fwd[id(a)] is not b:
                    out.append("sharing lost: %s and %s are one %s object in the live state but two separate copies in the restored state"
                               % (p(first[id(a)]), p(path), type(a).__name__))
                return
            if id(b) in back:
                out.append("%s and %s are distinct objects in the live state but one shared object in the restored state"
                           % (p(back[id(b)]), p(path)))
                return
            fwd[id(a)] = b
            first[id(a)] = path
            back[id(b)] = path
        if isinstance(a, (list, tuple, deque)):
            if len(a) != len(b):
                out.append("%s: length %d in the live state, %d in the restored state" % (p(path), len(a), len(b)))
                return
            for i, (x, y) in enumerate(zip(a, b)):
                walk(x, y, path + ("[%d]" % i,))
            return
        if isinstance(a, dict):
            ka = sorted("%s:%r" % (type(k).__name__, k) for k in a)
            kb = sorted("%s:%r" % (type(k).__name__, k) for k in b)
            if ka != kb:
                out.append("%s: keys %s in the live state, %s in the restored state" % (p(path), _short(ka, 120), _short(kb, 120)))
                return
            for k in a:
                walk(a[k], b[k], path + ("[%r]" % (k,),))
            return
        if isinstance(a, (set, frozenset)):
            sa = sorted("%s:%r" % (type(x).__name__, x) for x in a)
            sb = sorted("%s:%r" % (type(x).__name__, x) for x in b)
            if sa != sb:
                out.append("%s: set %s in the live state, %s in the restored state" % (p(path), _short(sa, 120), _short(sb, 120)))
            return
        if isinstance(a, enum.Enum):
            if a is not b:
                out.append("%s: %r in the live state, %r in the restored state" % (p(path), a, b))
            return
        if isinstance(a, fl.Action):
            for k in sorted(set(vars(a)) | set(vars(b))):
                if k not in vars(a) or k not in vars(b):
                    out.append("%s.%s: attribute only in the %s state" % (p(path), k, "live" if k in vars(a) else "restored"))
                    return
                walk(vars(a)[k], vars(b)[k], path + ("." + k,))
            return
        if dataclasses.is_dataclass(a):
            for f in dataclasses.fields(a):
                if f.name in skip_fields.get(type(a).__name__, ()):
                    continue
                walk(getattr(a, f.name), getattr(b, f.name), path + ("." + f.name,))
            return
        if type(a).__name__ == "RailsConfig":
            return   # configuration, not conversation state
        try:
            same = (a == b)
        except Exception:
            same = False
        if not same:
            out.append("%s: %s in the live state, %s in the restored state" % (p(path), _short(a, 80), _short(b, 80)))

    walk(live, restored, ())
    return out


# ---------------------------------------------------------------------------------------------
# A2: observable queries on a state (answers of the real system actions, and the tree of flows that can
# never be discarded by the clean-up: not finished/stopped, or activated)
# ---------------------------------------------------------------------------------------------
def _queries(env, state, event_names):
    sm = env.sm
    q = {}
    for fid in sorted(state.flow_configs):
        try:
            q["CheckValidFlowExistsAction(%s)" % fid] = env.call(env.gen.check_if_flow_exists(None, state=state, flow_id=fid))
        except Exception as ex:
            q["CheckValidFlowExistsAction(%s)" % fid] = "raised %s" % type(ex).__name__
    for name in event_names:
        try:
            q["CheckForActiveEventMatchAction(%s)" % name] = env.call(env.gen.check_for_active_flow_finished_match(None, state=state, event_name=name))
        except Exception as ex:
            q["CheckForActiveEventMatchAction(%s)" % name] = "raised %s" % type(ex).__name__

    def keeps(fs):
        return not (sm._is_done_flow(fs) and fs.activated == 0)

    def label(fs):
        return "%s@%s" % (fs.flow_id, fs.hierarchy_position)

    tree = []
    for fs in state.flow_states.values():
        if not keeps(fs):
            continue
        parent = state.flow_states.get(fs.parent_uid) if fs.parent_uid else None
        kids = sorted(label(state.flow_states[u]) for u in fs.child_flow_uids if u in state.flow_states and keeps(state.flow_states[u]))
        dangling = len([u for u in fs.child_flow_uids if u not in state.flow_states])
        tree.append((label(fs), fs.status.name, int(fs.activated), label(parent) if parent is not None and keeps(parent) else None,
                     tuple(kids), "dangling child uids: %d" % dangling, tuple(sorted(h.position for h in fs.heads.values()))))
    q["flow tree"] = sorted(tree, key=repr)
    for fid, lst in state.flow_id_states.items():
        q["instances(%s)" % fid] = sorted(label(fs) for fs in lst if keeps(fs))
    return q


def _event_names(script):
    names = []
    for s in script:
        n = "UtteranceUserActionFinished" if s[0] == "u" else (s[1] if s[0] == "e" else None)
        if n and n not in names:
            names.append(n)
    return names


# =============================================================================================
# the checks
# =============================================================================================
def _check_scenario(env, sc, script, si, tier, add, count, reported):
    name = sc["name"]
    n = len(script)

    def inputs(**kw):
        d = dict(scenario=name, script=si, events=script)
        d.update(kw)
        return "%s | program:\n%s" % (_short(d, 700), _short(sc["src"], 750))

    if "rails" not in sc:
        sc["rails"] = env.rails(sc["src"])
    rails = sc["rails"]
    names = _event_names(script)

    # ---- reference conversation: no save/restore, no idle time
    env.offset = env.timedelta(0)
    base = _Run(env, rails, script)
    base_q = []
    for i in range(n):
        base.step()
        base_q.append(_queries(env, base.state, names) if not isinstance(base.state, dict) and not base.dead else None)
    base_c = _canon_trace(base.trace)

    # ---- S1..S4: save/restore at every cut
    live = _Run(env, rails, script)
    forks = []

    def once(kind):
        if kind in reported:
            return False
        reported.add(kind)
        return True

    for k in range(n):
        live.step()
        if live.dead or isinstance(live.state, dict):
            break
        count("S1", name, si, k)
        try:
            js = env.state_to_json(live.state)
        except BaseException as ex:
            if isinstance(ex, (KeyboardInterrupt, SystemExit)):
                raise
            if once("S1"):
                add(SER, "state_to_json", CL_S1, inputs(cut="after event #%d" % k),
                    "state_to_json raised %s: %s" % (type(ex).__name__, _short(_no_ids(str(ex)), 200)))
            continue
        count("S2", name, si, k)
        try:
            restored = env.json_to_state(js)
        except BaseException as ex:
            if isinstance(ex, (KeyboardInterrupt, SystemExit)):
                raise
            if once("S2"):
                add(SER, "json_to_state", CL_S2, inputs(cut="after event #%d" % k),
                    "json_to_state raised %s: %s" % (type(ex).__name__, _short(_no_ids(str(ex)), 200)))
            continue
        count("S3", name, si, k)
        diffs = _state_diff(env, live.state, restored)
        if diffs and once("S3"):
            add(SER, "json_to_state", CL_S3, inputs(cut="after event #%d" % k), _short(_no_ids("; ".join(diffs)), 600))
        forks.append((k, restored, list(live.trace), list(live.counter)))
    live.finish()
    live_c = _canon_trace(live.trace)
    count("S1b", name, si, 0)
    if live_c != base_c:
        add(SER, "state_to_json", CL_S1B, inputs(cut="every cut"),
            "without the calls: %s || with state_to_json called after every event (live state kept): %s"
            % (_short(_show_trace(base_c), 400), _short(_show_trace(live_c), 400)))
    for k, restored, prefix, counter in forks:
        if k == n - 1:
            continue
        count("S4", name, si, k)
        r = _Run(env, rails, script, trace=prefix, state=restored, counter=counter).finish()
        rc = _canon_trace(r.trace)
        if rc != live_c and once("S4"):
            add(SER, "json_to_state", CL_S4, inputs(cut="after event #%d" % k),
                "live continuation: %s || restored continuation: %s" % (_short(_show_trace(live_c, k + 1), 420),
                                                                          _short(_show_trace(rc, k + 1), 420)))
    # cumulative: a conversation that is stored between every two events
    count("S4c", name, si, 0)
    cum = _Run(env, rails, script)
    ok = True
    for k in range(n):
        cum.step()
        if cum.dead or isinstance(cum.state, dict):
            break
        try:
            cum.state = env.json_to_state(env.state_to_json(cum.state))
        except Exception:
            ok = False   # reported by S1 / S2
            break
    if ok:
        cum.finish()
        cc = _canon_trace(cum.trace)
        if cc != base_c and once("S4") and once("S4c"):
            add(SER, "json_to_state", CL_S4C, inputs(cut="every cut"),
                "live: %s || saved and restored after every event: %s" % (_short(_show_trace(base_c), 420), _short(_show_trace(cc), 420)))

    # ---- A1/A2: idle time longer than the clean-up age before event k (k >= 1), and before every event
    ages = [_AGE] if tier != "thorough" else [_AGE, 3600.0]
    plans = [(k, age) for age in ages for k in range(1, n)] + [("every", _AGE)]
    if not (reported & {"S1", "S2", "S3", "S4", "S4c"}) and (tier == "thorough" or sc["group"] in ("cleanup", "core_library")):
        plans.append(("every+save", _AGE))   # both together (only where save/restore alone is fine)
    for k, age in plans:
        env.offset = env.timedelta(0)
        run = _Run(env, rails, script)
        bad_q = None
        storable = True
        for i in range(n):
            if (k in ("every", "every+save") and i >= 1) or i == k:
                env.idle(age)
            run.step()
            if k == "every+save" and storable and not run.dead and not isinstance(run.state, dict):
                try:
                    run.state = env.json_to_state(env.state_to_json(run.state))
                except Exception:
                    storable = False   # reported by S1 / S2
            if bad_q is None and not run.dead and not isinstance(run.state, dict) and base_q[i] is not None \
                    and (k in ("every", "every+save") or i >= k):
                q = _queries(env, run.state, names)
                if q != base_q[i]:
                    diff = ["%s: %r without idle time, %r with" % (key, base_q[i].get(key), q.get(key))
                            for key in sorted(set(q) | set(base_q[i])) if q.get(key) != base_q[i].get(key)]
                    bad_q = _no_ids("after event #%d: %s" % (i, "; ".join(diff)))
        env.offset = env.timedelta(0)
        count("A1", name, si, (k, age))
        count("A2", name, si, (k, age))
        rc = _canon_trace(run.trace)
        where = "%.0f s idle before %s" % (age, "every event" if k == "every" else "every event and the state saved and restored after "
                                           "every event" if k == "every+save" else "event #%d" % k)
        if not storable:
            continue
        if rc != base_c and once("A"):
            first = next(i for i in range(n) if rc[i] != base_c[i])
            add(SM, "_clean_up_state", CL_AS if k == "every+save" else CL_A1, inputs(idle=where),
                "without idle time: %s || with idle time: %s" % (_short(_show_trace(base_c, first), 420), _short(_show_trace(rc, first), 420)))
        elif rc == base_c and bad_q and once("A"):
            add(SM, "_clean_up_state", CL_AS if k == "every+save" else CL_A2, inputs(idle=where), _short(bad_q, 700))


def _random_scripts(sc, rng, count, max_len):
    pool = []
    for s in sc["scripts"]:
        for stp in s:
            if stp not in pool:
                pool.append(stp)
    out = []
    for _ in range(count):
        ln = rng.randint(2, max_len)
        out.append([rng.choice(pool) for _ in range(ln)])
    return out


def native_checks(rng, tier):
    env = _Env()
    scenarios = _scenarios()
    groups = []
    for sc in scenarios:
        if sc["group"] not in groups:
            groups.append(sc["group"])
    try:
        for group in groups:
            failing = []
            evals = [0]
            seen = set()

            def add(file, function, clause, inputs, outcome):
                if len(failing) < 8:
                    failing.append(dict(kind="post", function=function, file=file, property_id=PROP, clause=clause,
                                        inputs=inputs, outcome=outcome))

            def count(kind, name, si, k):
                evals[0] += 1
                seen.add((name, si, repr(k), kind[:1]))

            n_scripts = 0
            for sc in scenarios:
                if sc["group"] != group:
                    continue
                scripts = list(sc["scripts"])
                if tier == "thorough":
                    scripts += _random_scripts(sc, rng, 6, 8)
                reported = set()   # at most one failure per oracle and program
                for si, script in enumerate(scripts):
                    n_scripts += 1
                    try:
                        _check_scenario(env, sc, script, si, tier, add, count, reported)
                    except Exception as ex:   # a defect of this harness (or a program the tree under test cannot even load)
                        import traceback
                        add(SER, "C11_native", "the C11 native harness itself runs", "scenario=%s script=%d" % (sc["name"], si),
                            "harness error %s: %s" % (type(ex).__name__, _short(traceback.format_exc(), 600)))
            yield dict(function="state_to_json/json_to_state/_clean_up_state [%s]" % group, evaluations=evals[0], distinct=len(seen),
                       failures=len(failing), failing=failing,
                       bound="%d hand-written Colang 2.x programs of family '%s', %d event scripts of <= 8 events%s, driven through the real "
                             "LLMRails runtime; every cut between two events: save/restore (structure, sharing, continuation with the rest "
                             "of the script, plus save/restore at every cut), and %s of simulated idle time before each single event and "
                             "before every event (outgoing events and flow-existence / active-matcher / flow-tree queries)"
                             % (len([s for s in scenarios if s["group"] == group]), group, n_scripts,
                                " (incl. 6 random scripts per program over its event pool)" if tier == "thorough" else "",
                                "6 s and 3600 s" if tier == "thorough" else "6 s"))
    finally:
        env.close()
