"""C09 (referential part) — "every action ... referenced by a running flow still exists": the clean-up that runs before every event keeps it.

Block contract on the last three statements of nemoguardrails/colang/v2_x/runtime/statemachine.py::_clean_up_state (the pruning of
`state.actions`): if every action uid listed by a flow instance that survived the clean-up names an entry of `state.actions` before
the pruning, then afterwards it still does, the entry is the SAME Action object, and nothing but referenced actions is kept - for
any number of flow instances and actions, shared action uids and duplicates included."""
from pyvc.api import *

SM = "nemoguardrails/colang/v2_x/runtime/statemachine.py"
classes({"State": [], "FlowState": [], "Action": []})

FLOWS_OK = ("all(is_obj(val(state.flow_states, f)) and has(val(state.flow_states, f), 'action_uids') and "
            "is_list(val(state.flow_states, f).action_uids) for f in keys(state.flow_states))")
SUBMAP = "all(at_entry(has(state.actions, u)) and val(new_action_dict, u) is at_entry(val(state.actions, u)) for u in keys(new_action_dict))"

contract(
    SM, "_clean_up_state", prop="C09",
    block=("new_action_dict: Dict[str, Action] = {}", "state.actions = new_action_dict"),
    vars={"state": "V"},
    requires=["is_obj(state)", "has(state, 'flow_states')", "has(state, 'actions')", "is_dict(state.flow_states)", "is_dict(state.actions)",
              "state.flow_states is not state.actions", FLOWS_OK,
              # the invariant that is to be preserved: every referenced action exists
              "all(all(has(state.actions, u) for u in val(state.flow_states, f).action_uids) for f in keys(state.flow_states))"],
    ensures=["is_dict(state.actions)", "state.flow_states is old(state.flow_states)", "unchanged(state.flow_states)",
             # every referenced action is kept, as the same object
             "all(all(has(state.actions, u) and val(state.actions, u) is old(val(state.actions, u)) for u in val(state.flow_states, f).action_uids) "
             "    for f in keys(state.flow_states))",
             # nothing is invented
             "all(old(has(state.actions, u)) and val(state.actions, u) is old(val(state.actions, u)) for u in keys(state.actions))"],
    raises={},
    loops={
        "for flow_state in state.flow_states.values() #3": dict(index="_o", modifies=["new_action_dict"], inv=[
            "is_dict(new_action_dict)", "fresh(new_action_dict)", SUBMAP,
            "all(implies(key_index(state.flow_states, f) < _o, all(has(new_action_dict, u) for u in val(state.flow_states, f).action_uids)) "
            "    for f in keys(state.flow_states))"]),
        "for action_uid in flow_state.action_uids": dict(modifies=["new_action_dict"], inv=[
            "is_dict(new_action_dict)", "fresh(new_action_dict)", SUBMAP,
            "all(implies(key_index(state.flow_states, f) < _o, all(has(new_action_dict, u) for u in val(state.flow_states, f).action_uids)) "
            "    for f in keys(state.flow_states))",
            "all(implies(j < _k, has(new_action_dict, item(flow_state.action_uids, j))) for j in range(llen(flow_state.action_uids)))"]),
    },
)
