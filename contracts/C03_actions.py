"""C03 — failing actions are contained.

Exception contract on nemoguardrails/actions/action_dispatcher.py::ActionDispatcher.execute_action: whatever the registered
action does (it is modelled as unknown code that may raise ANY Exception subclass at its call, in its constructor, and when its
coroutine is awaited) the only exception that escapes is the deliberately forwarded LLMCallException, and the result is either
`(r, "success")` or `(None, "failed")`."""
from pyvc.api import *

AD = "nemoguardrails/actions/action_dispatcher.py"
classes({"LLMCallException": ["Exception"], "Chain": [], "Runnable": [], "ActionDispatcher": []})

opaque("_normalize_action_name", pure=True, result="s", raises=[], note="string normalisation of the action name (assumed total)")
for _m in ("arun", "acall", "run", "ainvoke"):
    opaque(_m, pure=False, raises=["Exception"], note="running the action object: unknown code, may raise any Exception")

contract(
    AD, "ActionDispatcher.execute_action", prop="C03",
    types={"action_name": "s"},
    globals={"logging_callbacks": "V"}, frame_keep=["self"],
    requires=["is_obj(self)", "is_dict(self._registered_actions)", "is_dict(params)"],
    ensures=["is_tuple(result)", "len(result) == 2",
             "(item(result, 1) == 'success') or (item(result, 1) == 'failed' and is_none(item(result, 0)))"],
    raises={"LLMCallException": "True"},
)
