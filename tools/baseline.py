#!/usr/bin/env python3
"""Run the repository's pinned baseline suite and compare with /root/.vp/BASELINE.json stable_pass."""
import json, subprocess, sys, tempfile, os, xml.etree.ElementTree as ET
b = json.load(open("/root/.vp/BASELINE.json"))
out = tempfile.mktemp(suffix=".xml")
cmd = b["cmd"].replace("<file>", out)
p = subprocess.run(cmd, shell=True, capture_output=True, text=True)
passed = set()
for tc in ET.parse(out).getroot().iter("testcase"):
    ok = not any(ch.tag in ("failure", "error", "skipped") for ch in tc)
    if ok:
        passed.add("%s::%s" % (tc.get("classname"), tc.get("name")))
os.unlink(out)
missing = [t for t in b["stable_pass"] if t not in passed]
print("stable_pass=%d passed_now=%d missing=%d" % (len(b["stable_pass"]), len(passed), len(missing)))
for t in missing[:20]:
    print("  NOT PASSING:", t)
sys.exit(1 if missing else 0)
