#!/usr/bin/env python3
"""usage: seed_verify.py Cxx [N...]  — confirm a sub-agent's mutant in its scratch worktree (/tmp/mut/Cxx) and keep it under
/verif/seeded/Cxx-N/ : clean tree -> demo PASS; patched -> demo FAIL, pinned suite still green; tree restored."""
import json, os, shutil, subprocess, sys
prop = sys.argv[1]
ns = sys.argv[2:] or ["1", "2"]
wt = "/tmp/mut/%s" % prop
out = os.path.join(wt, "out")
def sh(cmd, **kw):
    return subprocess.run(cmd, shell=True, cwd=wt, capture_output=True, text=True, **kw)
for n in ns:
    patch = os.path.join(out, "patch%s.diff" % n)
    demo = os.path.join(out, "demo%s.py" % n)
    meta = os.path.join(out, "meta%s.json" % n)
    if not (os.path.exists(patch) and os.path.exists(demo)):
        print(prop, n, "MISSING files"); continue
    sh("git checkout -- . ")
    ran = []
    r0 = sh("/venv/bin/python out/demo%s.py" % n, timeout=600)
    ran.append("clean tree: demo exit %d (%s)" % (r0.returncode, (r0.stdout.strip().splitlines() or [''])[-1][:120]))
    a = sh("git apply %s" % patch)
    if a.returncode != 0:
        print(prop, n, "PATCH DOES NOT APPLY", a.stderr[:200]); continue
    r1 = sh("/venv/bin/python out/demo%s.py" % n, timeout=600)
    ran.append("patched: demo exit %d (%s)" % (r1.returncode, (r1.stdout.strip().splitlines() or [''])[-1][:160]))
    b = subprocess.run("python3 /verif/tools/baseline_check.py %s" % wt, shell=True, capture_output=True, text=True)
    ran.append("patched: pinned suite: %s (exit %d)" % (b.stdout.strip().splitlines()[0] if b.stdout.strip() else '', b.returncode))
    sh("git checkout -- . ")
    ok = r0.returncode == 0 and r1.returncode != 0 and b.returncode == 0
    print(prop, n, "CONFIRMED" if ok else "REJECTED", "|", " ; ".join(ran))
    if ok:
        d = "/verif/seeded/%s-%s" % (prop, n)
        os.makedirs(d, exist_ok=True)
        shutil.copy(patch, os.path.join(d, "patch.diff"))
        shutil.copy(demo, os.path.join(d, "demo.py"))
        m = {}
        try:
            m = json.load(open(meta))
        except Exception:
            pass
        json.dump(dict(property=prop, summary=m.get("summary", ""), needs=m.get("needs", ""), files=m.get("files", []),
                       author="independent sub-agent (saw only the property text and its own scratch worktree)",
                       confirmed_by_me=ran, detected_by=None), open(os.path.join(d, "meta.json"), "w"), indent=1)
