#!/usr/bin/env python3
"""usage: kf_coverage.py Cxx [native.json] — which native failures are (un)matched by known_findings.json"""
import json, sys, os
ROOT = os.path.dirname(os.path.dirname(os.path.abspath(__file__)))
prop = sys.argv[1]
path = sys.argv[2] if len(sys.argv) > 2 else os.path.join(ROOT, "evidence", "work", prop + ".native.json")
kf = [k for k in json.load(open(os.path.join(ROOT, "known_findings.json")))["findings"] if k["property_id"] == prop]
r = json.load(open(path))
hit = {}
for f in r["failures"]:
    text = "%s %s %s %s" % (f.get("function"), f.get("clause", ""), f.get("inputs", ""), f.get("outcome", ""))
    m = [k["id"] for k in kf if all(s in text for s in k["match"])]
    if m:
        for i in m: hit[i] = hit.get(i, 0) + 1
    else:
        print("UNMATCHED:", (f.get("function") or "")[:110], "|", f.get("clause", "")[:160], "|", f.get("inputs", "")[:260], "->", f.get("outcome", "")[:200])
print("matched:", hit, " unused:", [k["id"] for k in kf if k["id"] not in hit])
