#!/usr/bin/env python3
"""usage: seed_run.py [seed-id ...]   — run the property's check against each seeded mutant on a scratch worktree of /repo
(VERIF_REPO), with evidence redirected to a temp dir; prints detected / missed and updates seeded/<id>/meta.json:detected_by."""
import json, os, shutil, subprocess, sys, tempfile, concurrent.futures as cf
ROOT = os.path.dirname(os.path.dirname(os.path.abspath(__file__)))
ids = sys.argv[1:] or sorted(os.listdir(os.path.join(ROOT, "seeded")))
claimed = {c["property_id"] for c in json.load(open(os.path.join(ROOT, "MANIFEST.json")))["checks"]}
def one(sid):
    d = os.path.join(ROOT, "seeded", sid)
    meta = json.load(open(os.path.join(d, "meta.json")))
    prop = meta["property"]
    if prop not in claimed and "--all" not in sys.argv:
        return sid, "not-claimed", []
    wt = tempfile.mkdtemp(prefix="seedrun-", dir="/tmp")
    os.rmdir(wt)
    subprocess.run(["git", "-C", "/repo", "worktree", "add", "-q", "--detach", wt, "HEAD"], check=True)
    try:
        a = subprocess.run(["git", "-C", wt, "apply", os.path.join(d, "patch.diff")], capture_output=True, text=True)
        if a.returncode != 0:
            return sid, "patch-does-not-apply", [a.stderr[:200]]
        ev = tempfile.mkdtemp(prefix="seedev-", dir="/tmp")
        env = dict(os.environ, VERIF_REPO=wt, VERIF_EVIDENCE_DIR=ev)
        p = subprocess.run(["./check", prop], cwd=ROOT, env=env, capture_output=True, text=True)
        lines = [l for l in p.stdout.splitlines() if l.startswith(("VIOLATION", "CHECKER-ERROR", "UNDECIDED", "KNOWN"))]
        detail = []
        for l in lines:
            if l.startswith("VIOLATION"):
                rp = l.split("replay=")[1].split()[0]
                try:
                    r = json.load(open(os.path.join(ROOT, rp)))
                    detail.append("%s | %s | %s" % (r.get("obligation"), (r.get("clause") or "")[:80], ((r.get("native_counterexample") or {}).get("inputs") or "")[:100]))
                except Exception:
                    pass
        shutil.rmtree(ev, ignore_errors=True)
        status = "DETECTED" if p.returncode == 1 and any(l.startswith("VIOLATION") for l in lines) else "missed(exit %d)" % p.returncode
        meta["detected_by"] = dict(check="./check %s" % prop, status=status, lines=lines[:4], obligations=detail[:4])
        json.dump(meta, open(os.path.join(d, "meta.json"), "w"), indent=1)
        return sid, status, lines[:3] + detail[:2]
    finally:
        subprocess.run(["git", "-C", "/repo", "worktree", "remove", "--force", wt])
with cf.ThreadPoolExecutor(3) as ex:
    for sid, status, lines in ex.map(one, [i for i in ids if not i.startswith("-")]):
        print("%-8s %s" % (sid, status))
        for l in lines:
            print("      ", l[:220])
