#!/usr/bin/env python3
"""usage: baseline_check.py <worktree>   — run the pinned test command of /root/.vp/BASELINE.json in <worktree> and compare with its
stable_pass list.  exit 0 iff every stable-pass test still passes.  (used when confirming seeded changes and fix: commits)"""
import json, os, subprocess, sys, tempfile
import xml.etree.ElementTree as ET
wt = sys.argv[1]
base = json.load(open("/root/.vp/BASELINE.json"))
stable = set(base["stable_pass"])
fd, xml = tempfile.mkstemp(suffix=".xml", prefix="junit-", dir="/tmp")
os.close(fd)
env = dict(os.environ, PYTHONDONTWRITEBYTECODE="1")
subprocess.run(["/venv/bin/python", "-m", "pytest", "-ra", "-q", "-p", "no:cacheprovider", "--timeout=900", "--continue-on-collection-errors",
                "--junitxml=" + xml], cwd=wt, env=env, capture_output=True, text=True)
passed = set()
try:
    for tc in ET.parse(xml).getroot().iter("testcase"):
        if not any(ch.tag in ("failure", "error", "skipped") for ch in tc):
            passed.add("%s::%s" % (tc.get("classname"), tc.get("name")))
finally:
    os.unlink(xml)
missing = sorted(stable - passed)
print("stable_pass=%d passed_now=%d missing=%d" % (len(stable), len(passed & stable), len(missing)))
for m in missing[:20]:
    print("  MISSING", m)
sys.exit(0 if not missing else 1)
