#!/usr/bin/env python3
"""Regenerate /verif/MANIFEST.json from the table below (kept valid against /root/.vp/MANIFEST.schema.json)."""
import json, os
ROOT = os.path.dirname(os.path.dirname(os.path.abspath(__file__)))
props = [json.loads(l) for l in open(os.path.join(ROOT, "properties.jsonl"))]

CLAIMS = {
 "C04": dict(
   text="Deductive proof (all inputs, all nestings, all container sizes) that the real _compute_arguments_dict_matching_score returns a "
        "positive score exactly when the statement's recursive partial-match predicate holds, and a score in (0,1] then; recursion "
        "through the function's own contract, three loops cut by invariants, termination by a rank measure. The name / instance rules "
        "of _compute_event_comparison_score are covered by the bounded stand-in only (labelled bounded).",
   note="Assumed: floats are mathematical reals (0.9**n never underflows); regex engine and comparison operators uninterpreted; "
        "ComparisonExpression.compare contract assumed; values are JSON-like, acyclic, dict keys are strings; statement-silent zone "
        "(1/True/1.0, regex against non-string) excluded by the `typed` precondition. Trusted: the pyvc encoder, z3/cvc5. Unverified: "
        "that run_to_completion consults exactly the waiting heads and advances a head iff its score is positive.",
   technique="contract-based deductive verification: VCs generated from the real function AST (pyvc), discharged by z3/cvc5; "
             "bounded native contract checking as labelled stand-in and replay",
   design_ref="DESIGN.md section 7 (C04)"),
 "C20": dict(
   text="Deductive proof, for every list of config-id strings and every server state, that each path the real _get_rails hands to "
        "RailsConfig.from_path (ghost trace) is the configured root or lies lexically inside it with no '..' component - on normal "
        "and on every exceptional exit; string lemmas split between z3 (regex) and cvc5 (containment). Thread-history clauses of "
        "chat_completion are covered by the bounded stand-in only.",
   note="Assumed (listed in evidence): os.path.abspath yields a normalised absolute path; posixpath.join/normpath/commonprefix axioms "
        "(A-JOIN, A-NORMPATH, A-COMMONPREFIX) for a single component; from_path / LLMRails do not modify the server globals; root != '/'. "
        "Symlinks are outside a lexical contract. Trusted: pyvc encoder, regex-to-SMT compiler (re._parser based), z3/cvc5.",
   technique="contract-based deductive verification (pyvc VCs from the real AST + ghost trace + hand-instantiated string lemmas; z3/cvc5); "
             "bounded native contract checking as labelled stand-in and replay",
   design_ref="DESIGN.md section 7 (C20)"),
 "C07": dict(
   text="Deductive proof, for every and/or group (no bound on depth or width) and every valuation of its leaves (an uninterpreted "
        "predicate), that the real normalize_element_groups / flatten_or_group return one `or` of `and`s of leaves (the shape the "
        "fork/merge expansion relies on) and that the normal form is satisfied only if the original formula is (a match never "
        "completes before its formula holds). The converse direction and the run-time head protocol (completion at exactly the "
        "first satisfying event) are covered only by the bounded stand-in, labelled bounded.",
   note="Assumed: groups are acyclic trees of Spec leaves and {_type, elements} dicts (wf precondition); a class is never both a Spec and "
        "a dict (A-CLASSES); value-mode frozen-heap encoding (DESIGN.md 3.3). Unverified: the fork/merge/wait-for-heads protocol in "
        "slide/run_to_completion; _expand_match_element/_expand_await_element/_expand_when_stmt_element emission (bounded only).",
   technique="contract-based deductive verification (pyvc VCs from the real AST, recursion through the function's own contract, loop and "
             "comprehension contracts, fueled recursive spec; z3) + bounded native contract checking through the real interpreter",
   design_ref="DESIGN.md section 7 (C07)"),
}
NA_DEFAULT = "check not built yet (build in progress; see DESIGN.md section 7 for the plan)"
NA = {}

m = {"version": 1,
     "setup_cmd": "python3-vt -m compileall -q pyvc native contracts >/dev/null; python3-vt -m pyvc.selftest",
     "hooks": {"guard": "NEMO_GUARDRAILS_VERIF",
               "enable": "no hooks: contracts are sidecar files under /verif/contracts; /repo is read as text by the prover and imported unmodified by the native harness",
               "baseline_off_cmd": "cd /repo && /venv/bin/python -m pytest -ra -q -p no:cacheprovider --timeout=900 --continue-on-collection-errors",
               "source_commits": [], "add_only": True},
     "engines": [{"name": "pyvc", "path": "pyvc/", "serves_properties": sorted(CLAIMS),
                  "kind_free_text": "home-made deductive verifier for a Python subset: symbolic execution of the real function ASTs into "
                                    "verification conditions against sidecar contracts; z3 + cvc5"},
                 {"name": "native", "path": "native/", "serves_properties": sorted(CLAIMS),
                  "kind_free_text": "runs the real functions under /venv/bin/python against the same sidecar contracts: bounded stand-in and counterexample replay"}],
     "checks": [], "notes": "See DESIGN.md. Exit codes of ./check: 0 ok, 1 VIOLATION, 2 undecided, 3 checker error.",
     "not_applicable": []}
for p in props:
    i = p["id"]
    if i in CLAIMS:
        c = CLAIMS[i]
        m["checks"].append({"property_id": i, "quick_cmd": "./check %s --tier quick" % i, "thorough_cmd": "./check %s --tier thorough" % i,
                            "evidence_file": "evidence/%s.json" % i, "replay_cmd_template": "./check %s --replay {path}" % i, "engine": "pyvc",
                            "level_claimed": {"category": "proof", "text": c["text"], "design_ref": c["design_ref"]},
                            "level_note": c["note"], "technique": c["technique"]})
    else:
        m["not_applicable"].append({"property_id": i, "reason": NA.get(i, NA_DEFAULT)})
json.dump(m, open(os.path.join(ROOT, "MANIFEST.json"), "w"), indent=1)
try:
    import jsonschema
    jsonschema.validate(m, json.load(open("/root/.vp/MANIFEST.schema.json")))
    print("MANIFEST ok: %d checks, %d not_applicable" % (len(m["checks"]), len(m["not_applicable"])))
except ImportError:
    print("written (jsonschema not available for validation)")
