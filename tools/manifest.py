#!/usr/bin/env python3
"""Regenerate /verif/MANIFEST.json from the table below (kept valid against /root/.vp/MANIFEST.schema.json)."""
import glob, json, os, re
ROOT = os.path.dirname(os.path.dirname(os.path.abspath(__file__)))
props = [json.loads(l) for l in open(os.path.join(ROOT, "properties.jsonl"))]
TECH = ("contract-based deductive verification: VCs generated from the real function ASTs (pyvc) against sidecar contracts, discharged by "
        "z3/cvc5; bounded native contract checking of the real code as labelled stand-in and replay")
TECH_B = ("contracts on the real code checked natively on enumerated/small-scope inputs (bounded stand-in of the contract-based family; "
          "no obligation is counted as proved)")
# proved: what the discharged obligations establish (None = nothing deductive yet);  bounded: what only the bounded native side covers
C = {
 "C01": ("flow contracts on the shipped llm_flows.co (parser output): `process user input` creates UserMessage only after ALL configured input rails ran, in the "
         "configured order, once each (or none when the category is disabled); the text of UserMessage is $user_message after the last rail; any number of rails; the shipped library rails `self check input`, `content safety check input`, `llama guard check input`, `jailbreak detection heuristics` (2.x) finish only when their check let the input through - a rejected input ends in `abort` with rails exceptions on or off",
         "input rails gating through the real LLMRails (Colang 1.0 general/passthrough/dialog, Colang 2.x guardrails library): order, stop on reject, "
               "no LLM call after reject, rewritten text in every later prompt; multi-turn", "A-COLANG: operational reading of the Colang 1.0 elements; cross-flow event dispatch, history replay, prompt construction and the LLMRails driver are "
         "not verified (bounded only); Colang 2.x guardrails library bounded only"),
 "C02": ("flow contracts on `process bot message` / `run output rails` (parser output): StartUtteranceBotAction only after all configured output rails ran in order "
         "(unless skipped / disabled), script == $bot_message after the last rail, and $skip_output_rails is false on EVERY completion of the flow", "output rails gating through the real LLMRails, multi-turn (3-5 turns), Colang 1.0 modes and Colang 2.x guardrails library: every LLM-generated "
               "bot message passes all rails in order, rejected text never returned, later turns still checked", "FakeLLM, scripted rail actions"),
 "C03": ("ActionDispatcher.execute_action: whatever the registered action does (unknown code that may raise any Exception at its call, in its constructor, when "
         "awaited) only the forwarded LLMCallException escapes and the result is (r,'success') or (None,'failed'); the shipped library rails `self check output` (fix f64058b), `content safety check output`, `llama guard check output`, `patronus lynx check output hallucination` (2.x) finish only when their check let the output through; RuntimeV1_0._process_start_action emits the ContextUpdate of a rail action iff at least one reported key differs from the context (block contract)",
         "fault injection at every action call index (singles and pairs) through the real LLMRails in both Colang versions: generate returns, reply is refusal / "
         "internal error, next turn has all rails active", "inspect predicates, Chain/Runnable methods and logging modelled as unknown code / uninterpreted"),
 "C04": ("_compute_arguments_dict_matching_score returns a positive score exactly when the statement's recursive partial-match predicate holds, and a score in (0,1] "
         "then (all inputs, all nestings; recursion through its own contract, three loops by invariant, termination by rank); "
         "_compute_event_comparison_score, whatever the argument matcher answers: no positive score for an external event of another name, for an "
         "event of another action instance than the one the statement carries, or across Finished / Failed / Started flow events; the declared flow priority scales the score of every kind of event: a result other than the fixed 0 / -1 verdicts is the matcher's score (damped by 0.9 for a StartFlow matcher without flow_id) times the priority; Action.started_event / updated_event / finished_event (the reference events of `match Action(..).Xxx(..)`) carry the action's start arguments and every argument of the statement, and leave the caller's dict untouched",
         "name / instance / priority rules of _compute_event_comparison_score", "floats are reals; regex engine and comparison operators uninterpreted; "
         "statement-silent zone (1/True/1.0, regex vs non-string) excluded by the `typed` precondition"),
 "C05": ("_resolve_action_conflicts piece by piece (block contracts on the real statements, ghost traces of the events generated / flows aborted): the heads are "
         "partitioned by the interaction loop of their flow (GROUP); the winner of a group is a head of the group whose 1.0-padded score chain is "
         "lexicographically largest - for every group, every chain and every outcome of random.choice (SELECT, with the sort key lambda and the tie "
         "prefix under contract); exactly one action event, the winner's, is generated per group (WIN); every other head of the group either advances "
         "without a second action event (same event), is moved to its catch label, or has exactly its own flow handed to _abort_flow (STEP); a "
         "co-winner's references are redirected to the winner's action (REDIR / LOOP)",
         "competing flows through the real interpreter with every tie-break outcome enumerated (random.choice scripted) + contract monitor on "
         "_resolve_action_conflicts: one most-specific action per loop, losers fail, identical actions shared, loops independent",
         "A-SORTED: sorted(key=..., reverse=...) orders by the key (the key lambda itself is verified: 1.0-padded chain) and Python compares float "
         "lists lexicographically; ghost first-difference function fd (definitional axioms); A-EVENT / A-ABORT / A-POS-SETTER / A-ACTIONABLE / "
         "A-REGISTERED (callees of the per-head step are assumed by frame); the composition of the blocks over the two loops of the function, the "
         "single-head shortcut and what _abort_flow then does are bounded only"),
 "C06": ("the step at which a flow that ends deals with ONE child (body of the child loop of _abort_flow and of _finish_flow: a child that is not an "
         "activated successor of the same flow gets exactly one _abort_flow(.., deactivate_flow=True), a missing or self-activated one none), the "
         "restart step (exactly one StartFlow pushed to the left end of the queue, with the right source instance, iff the flow is activated, not "
         "being deactivated and has no successor yet; else nothing), _is_child_activated_flow / _is_reference_activated_flow; and "
         "the step at which a flow that ends lets go of one of its actions (body of the action loop of _abort_flow and of _finish_flow, block "
         "contracts; Action.stop_event): an action that is STARTING / STARTED and held by this flow alone gets exactly one event, its own Stop "
         "(`Stop<name>`, same action_uid); one that another flow still holds only loses a reference (no event, status kept); one that was never "
         "started, is already stopping or has finished gets no event and is not touched - for every action object and every count",
         "flow / action lifetimes through the real interpreter with a passive monitor on _abort_flow/_finish_flow/start requests: children stopped, exactly one "
         "Stop per unfinished unshared action, activated flows restarted while an activator runs",
         "A-UMIM: _generate_umim_event(state, e) appends to state.outgoing_events and lets only the action registered under e.action_uid process the "
         "event (assumed frame); the recursive _abort_flow call on a child is opaque (induction over the hierarchy in prose), FlowState.start_event / "
         "_push_left_internal_event are assumed by frame; the loops around the per-child / per-action steps, the deactivate branch and what happens "
         "to the queued StartFlow are bounded only"),
 "C07": ("normalize_element_groups / flatten_or_group: for every and/or group and every valuation of the leaves the result is one `or` of `and`s of leaves and is "
         "satisfied only if the original formula is (unbounded depth/width)",
         "converse direction; `match <group>` completes at exactly the first satisfying event (real interpreter, all short event sequences)",
         "groups are acyclic trees of Spec leaves; a class is never both Spec and dict; frozen-heap value mode"),
 "C08": ("the positional-binding loop of _start_flow (block contract): with P = the number of leading positional arguments `$0..$P-1` present, the context "
         "variable of the i-th declared parameter IS the value of `$i` for every i < P - any value, None / False / 0 / containers included - every "
         "other context variable (named arguments, defaults) is untouched, and only ColangRuntimeError can be raised; the first parameter loop of "
         "create_flow_instance binds a named argument to exactly the caller's value and a parameter without argument and default to None; the "
         "`return` branch of slide stores exactly the evaluated value (None for a bare return) under `_return_value`, touches no other variable "
         "and ends the flow; "
         "FlowState.finished_event / _create_out_event: the FlowFinished event carries return_value == the instance's `_return_value` context entry whenever "
         "that entry exists, for every value incl. None/False/0/empty containers (what `$x = await flow` assigns)", "parameter binding / defaults / return values / private locals through the real interpreter on enumerated signatures x call forms x value types, "
               "concurrent instances, mutable defaults", "dataclass constructors modelled from the real field lists; attribute reads on objects assumed present"),
 "C09": ("the leaf operations of the dispatch index, for every state of the two maps: _remove_head_from_event_matching_structures removes exactly one "
         "occurrence of the head's pair and its reverse entry (or changes nothing) and never raises on a consistent index; "
         "_add_head_to_event_matching_structures appends the pair under exactly the event name it records in the reverse map; both leave every other "
         "list and entry untouched (frames verified); the callback _flow_head_changed (verified as a client of the two): afterwards the index records "
         "the head under the event name of its element iff the head is waiting (on a match element, not INACTIVE, flow waiting / starting / "
         "started), and holds no entry for it otherwise; the action pruning of _clean_up_state keeps every action that a surviving flow instance "
         "references, as the same object, and invents nothing",
         "after every run_to_completion on generated programs x exhaustive short histories (incl. JSON save/restore and simulated idle time): no pending "
         "internal event, heads parked on waits, no dangling uids, dispatch index == from-scratch scan",
         "that the callback is invoked on every change (FlowHead setters, _abort_flow / _finish_flow) and the whole-"
         "loop invariants (quiescence, parked heads) are bounded only; get_event_name_from_element is unknown pure code; tuples compare structurally "
         "(axiomatised for lengths 1-3)"),
 "C10": ("the `except Exception` handler of _advance_head_front (block contract on its statements): for every exception object and every element the "
         "head may stand on (with or without source information) the handler raises nothing, queues exactly one internal event, that event is a "
         "ColangError carrying the exception's type name and message, and the flow is marked aborted; and the retry loop of "
         "RuntimeV2_x.process_events around run_to_completion (block contract): no Exception that run_to_completion raises ever leaves the loop, every "
         "failure is answered by handing run_to_completion one freshly built ColangError event (type name + text; checked at the call), and the loop is "
         "left only after a call that returned; the try statement of _advance_head_front catches EVERY Exception subclass its body can raise "
         "(coverage obligation over an abstracted body)",
         "termination of process_events (step bound + hard timeout) and fault containment for an erroneous expression at every statement position with "
         "unrelated reactor flows",
         "A-POS: when the try body raises the head stands on an element of its flow (precondition of the block, not verified); everything outside the "
         "handler (slide, _abort_flow, the match-time evaluation that has no handler at all: known findings) and termination - also of the retry loop - "
         "are bounded only; A-SLEEP (tasks scheduled during asyncio.sleep do not touch the local event object)"),
 "C11": ("the aging part, function-level core only: the loop of _clean_up_state that selects the flow instances to discard (block contract) selects - whatever "
         "the clock says - only instances of state.flow_states that are done (status stopped / finished, _is_done_flow under contract) and not "
         "activated, and changes nothing; a waiting / starting / started / stopping or activated instance is never selected; the body of the "
         "removal loop (block contract REMOVE) takes exactly the selected entry out of state.flow_states - every other instance stays, as the same "
         "object -, shortens the list of its flow id by one item and raises nothing",
         "save/restore at every cut point and simulated idle time on programs holding sets, nested containers, flow/action/event references: same outgoing events, "
         "shared references stay shared",
         "the clock (datetime.now, timedelta, their `-` and `>`) is arbitrary (A-OBJOP / A-OBJCMP); that discarding a done instance leaves every later reaction "
         "unchanged, the composition of the REMOVE steps over the removal loop (its precondition - the instance is listed under its flow id - is a state invariant checked by the C09 native side only), and the whole serialisation round trip (recursive encode_to_dict / decode_from_dict with the refs table: outside the "
         "engine's reach) are bounded only"),
 "C12": ("Colang 1.0 post-passes (heap mode, all inputs): _resolve_gotos turns every goto into a relative jump that lands exactly on the element that was its "
         "label and every label into a jump to the next element, keeps every offset inside the flow and leaves no goto/label; "
         "RuntimeV1_0._load_flow_config stores a configuration whose elements are closed whenever the flow it is handed is (dropping the leading `meta` "
         "element - verified as a block contract and used as a summary - keeps every offset inside the flow)",
         "closure predicate (labels, fork/merge, scopes, primitives only; 1.0 offsets in range) on all 210 shipped .co files and enumerated/random programs "
         "after the real parser/expander; what the runtimes store (1.0 loader incl. nested `meta`, 2.x AddFlowsAction)",
         "_extract_elements (recursive, mutates its input) and the whole Colang 2.x expansion are bounded only; A-META-FIRST: nothing jumps onto a leading "
         "`meta` element (precondition); element dicts of a flow are pairwise distinct objects (precondition); key-level loop frames by syntactic write-set"),
 "C13": ("format_colang_parsing_error_message raises nothing for an arbitrary exception object and content; the read-and-parse `with` block of "
         "_parse_colang_files_recursively lets only ColangParsingError (or open's OSError) escape whatever parse_colang_file raises",
         "layout invariance (blank lines, trailing whitespace, comments, indentation scaling) and the error path end-to-end on mutated files", 
         "parsers themselves (Lark grammar, hand-written 1.0 parser) are unknown code; hang-freedom only by timeout in the bounded part"),
 "C14": ("sliding.slide: under the closure precondition (C12) the head stays inside the flow, the result is None / the finish marker / the position of a non-sliding "
         "element, and every iteration moves the head the structured way (if: then-branch iff condition; while: body iff condition; break / continue offsets)",
         "compute_next_steps on generated structured 1.0 flows vs a reference structured-program reading; decision is a function of the history alone", "`set` elements excluded from the proved part by precondition; eval_expression is unknown pure code; the multi-flow decision "
         "(compute_next_state) is bounded only"),
 "C15": ("LLMParams.__enter__ / __exit__ (llm/params.py) and their composition: every altered parameter that is an attribute of the llm object is saved and "
         "overwritten, every other attribute is untouched, no attribute appears or disappears; after `enter; exit` EVERY attribute of the llm object is "
         "identical to its value before (any llm object, any number of parameters, any values; frames of both methods verified)",
         "conversation isolation on a shared LLMRails instance: sequential interleavings, cache-key injectivity (exhaustive small lists), llm_params sequential "
         "(incl. the model_kwargs route) and concurrent (asyncio tasks with gated latencies)",
         "setattr/getattr/hasattr are plain attribute-dictionary operations (A-SETATTR: no properties/slots/__setattr__ on the llm object); parameters routed to "
         "model_kwargs and overlapping contexts are bounded only (both are recorded known findings); the events-history cache and reply equality are bounded only"),
 "C16": ("flow contracts on llm_flows.co: with a category disabled its rails do not run (input / output / retrieval), with dialog disabled generate_user_intent "
         "is never executed and the flow answers with $user_message (output off) or BotMessage($bot_message); $skip_output_rails never survives `process bot message`; RuntimeV1_0._process_start_action emits the ContextUpdate of a rail action iff at least one reported key differs from the context (block contract)",
         "all 16 subsets of rail categories x verdict combinations x texts through the real generate, with log oracle; multi-turn on one instance and with state; the generation log oracle", "A-COLANG (see C01); compute_generation_log and the events cache are bounded only"),
 "C17": ("totality of the post-LLM string helpers of actions/llm/utils.py (get_first_nonempty_line, get_top_k_nonempty_lines, strip_quotes, get_multiline_response, "
         "remove_action_intent_identifiers, get_initial_actions, get_first_user_intent, get_first_bot_intent, get_first_bot_action): for every string / list of strings "
         "they raise nothing and return the documented shape", "hostile LLM outputs at every call position through the real LLMRails in 8 Colang 1.0 modes and 3 Colang 2.x set-ups: generate never raises, well-formed "
               "message, template/variable syntax returned literally; output parsers", "str.split/strip/replace are uninterpreted with partial axioms (A-SPLIT, A-STRIP, A-REPLACE); containment of what happens inside actions is C03; "
         "the never-evaluated (data-flow) clause is bounded only"),
 "C18": ("configurations without suffix and stop sequences (no pattern at all, or a prefix): StreamingHandler._process / push_chunk / on_llm_end under "
         "relational contracts (SMT strings) and two ghost clients that carry the induction over the chunk sequence - for EVERY text, every prefix and "
         "every way of splitting the text into chunks `completion` ends up as the text with the prefix removed (if the text starts with it), and every "
         "_process call delivers exactly the string it appends to `completion`; frames of the three methods verified",
         "StreamingHandler on all 2^(n-1) chunkings of short texts for every prefix/suffix/stop configuration family, three ways of driving it",
         "suffix, stop sequences, buffering, pipe_to and chunk objects other than str are bounded only (15 known-finding classes live there); "
         "asyncio.Event.is_set/set and asyncio.Queue.put are ASSUMED contracts (flag attribute; ghost trace of delivered items); the step from "
         "'each call appends the same string to completion and to the queue' to 'delivered text == completion' is an induction stated in prose"),
 "C19": ("the cache decorator cache_embeddings.wrapper_decorator (real nested function, heap mode): for every list of texts - duplicates, any mix of "
         "cached and new texts, cache enabled or not - the result has the length of the input and its i-th item is the model's vector for the i-th "
         "text (exact filtered comprehension, dict update, order-preserving read-back); the list forms of EmbeddingsCache.get / set (the real "
         "singledispatch registrations) verified against the single-text forms and used by the wrapper through their contracts",
         "cache_embeddings / EmbeddingsCache / batching with a gated fake model: own vector per text, input order, completion of concurrent requests",
         "ASSUMED contracts for what surrounds the wrapper: EmbeddingsCache.from_config yields a coherent map text -> vector (A-KEY: injective key "
         "generator, map-like store; coherence fails when two models share a store: known finding), the single-text EmbeddingsCache.get(text) / "
         "set(text, value) are the map abstraction itself, the decorated _get_embeddings returns the model's vectors in order; request batching, concurrency and progress are bounded only"),
 "C20": ("every path the real _get_rails hands to RailsConfig.from_path (ghost trace) is the configured root or lies lexically inside it with no '..' component, on "
         "normal and exceptional exits, for every list of config ids; the thread steps of chat_completion (block contracts): with a thread id (>= 16 characters) the "
         "store is read exactly once under 'thread-' + id and the turn's messages are the loaded thread followed by the request's messages in order; "
         "afterwards the store is written exactly once, under the same key, with the JSON text of that list plus the reply; without a thread id the "
         "store is neither read nor written", "thread-history clauses of chat_completion (stored thread ++ new messages ++ reply; threads never mix)",
         "os.path.abspath/join/normpath/commonprefix axioms (A-*), from_path/LLMRails do not modify the server globals, root != '/'; symlinks outside a lexical contract; DataStore.get / set and json.loads / dumps "
         "are library code (assumed by frame, arguments recorded); the statements between the two thread blocks (generation) are bounded only"),
}
def has_native(i): return any(re.search(r"^def native_checks|^NATIVE\s*=", open(f).read(), re.M) for f in glob.glob(os.path.join(ROOT, "contracts", i + "_*.py")))
def has_contract(i): return any(re.search(r"^contract\(", open(f).read(), re.M) and "verify=False" not in open(f).read() or len(re.findall(r"^contract\(", open(f).read(), re.M)) > open(f).read().count("verify=False") for f in glob.glob(os.path.join(ROOT, "contracts", i + "_*.py")) if re.search(r"^contract\(", open(f).read(), re.M))
m = {"version": 1,
     "setup_cmd": "python3-vt -m compileall -q pyvc native contracts >/dev/null; python3-vt -m pyvc.selftest",
     "hooks": {"guard": "NEMO_GUARDRAILS_VERIF",
               "enable": "no hooks: contracts are sidecar files under /verif/contracts; /repo is read as text by the prover and imported unmodified by the native harness",
               "baseline_off_cmd": "cd /repo && /venv/bin/python -m pytest -ra -q -p no:cacheprovider --timeout=900 --continue-on-collection-errors",
               "source_commits": [], "add_only": True},
     "engines": [], "checks": [], "not_applicable": [],
     "notes": "See DESIGN.md. Exit codes of ./check: 0 ok (KNOWN-FINDING lines for entries of known_findings.json), 1 VIOLATION, 2 undecided, 3 checker error."}
READY = set("C01 C02 C03 C04 C05 C06 C07 C08 C09 C10 C11 C12 C13 C14 C15 C16 C17 C18 C19 C20".split())
claimed = []
for p in props:
    i = p["id"]
    files = glob.glob(os.path.join(ROOT, "contracts", i + "_*.py"))
    if i in C and files and i in READY:
        proved, bounded, assumed = C[i]
        ded = proved is not None
        text = (("PROVED (all inputs, no bound): " + proved + ". ") if ded else "No obligation is proved for this property yet; ") + \
               "BOUNDED (real code against the same contracts, never counted as proved): " + bounded + "."
        m["checks"].append({"property_id": i, "quick_cmd": "./check %s --tier quick" % i, "thorough_cmd": "./check %s --tier thorough" % i,
                            "evidence_file": "evidence/%s.json" % i, "replay_cmd_template": "./check %s --replay {path}" % i, "engine": "pyvc" if ded else "native",
                            "level_claimed": {"category": "proof" if ded else "exploration", "text": text, "design_ref": "DESIGN.md section 7 (%s)" % i},
                            "level_note": "Assumed / trusted: " + assumed + ". Trusted: the pyvc encoder, z3/cvc5, CPython's ast. The step from function/flow contracts to whole "
                                          "conversations stays unverified (DESIGN.md section 1).",
                            "technique": TECH if ded else TECH_B})
        claimed.append(i)
    else:
        m["not_applicable"].append({"property_id": i, "reason": "check not built yet (build in progress; see DESIGN.md section 7 for the plan)"})
m["engines"] = [{"name": "pyvc", "path": "pyvc/", "serves_properties": [c["property_id"] for c in m["checks"] if c["engine"] == "pyvc"],
                 "kind_free_text": "home-made deductive verifier for a Python subset: symbolic execution of the real function ASTs into verification conditions against sidecar contracts; z3 + cvc5"},
                {"name": "native", "path": "native/", "serves_properties": claimed,
                 "kind_free_text": "runs the real functions / interpreter / LLMRails under /venv/bin/python against the same sidecar contracts: bounded stand-in and counterexample replay"}]
json.dump(m, open(os.path.join(ROOT, "MANIFEST.json"), "w"), indent=1)
import jsonschema
jsonschema.validate(m, json.load(open("/root/.vp/MANIFEST.schema.json")))
print("MANIFEST ok: %d checks (%s), %d not_applicable" % (len(m["checks"]), " ".join(claimed), len(m["not_applicable"])))
