"""coverif.v1 — contracts on the Colang 1.0 flows that ship in the repository.

What is verified is the OUTPUT OF THE REAL PARSER (`parse_colang_file(..., version="1.0")`, run by native/extract.py on every
check) for the real `.co` file: the flat element list of each flow.  A small symbolic executor walks the elements with the head
arithmetic of `colang/v1_0/runtime/sliding.py::slide` (`if`: +1 / +_next_else, `while`: +1 / +_next_on_break, `jump`: +_next,
`set`: context update) - that arithmetic is the subject of the C14 contract on `slide` and the C12 closure property.

Trusted base of this layer (A-COLANG, listed in every evidence file): the operational reading of each element kind;
an event-match element lets the flow continue when the event arrives (cross-flow dispatch by `compute_next_state` is NOT
verified); `do <subflow>` either returns or stops the whole turn (`bot ... / stop`); expressions are evaluated with total
semantics (an expression that raises fails the flow: counted as a closed path).
"""
import ast
import hashlib
import re
import z3
from pyvc import smt
from pyvc.smt import V, simp
from pyvc.tr import T, tV, toV, St, EC, OutOfSubset, CheckerError, fresh, truthy, Heap

IntS = smt.IntS


class FlowFX:
    def __init__(self, label, contract):
        self.label = label
        self.nobl = 0
        self.entry = None
        self.fsrc = None
        self.contract = contract
        self.modconsts = {}


class _C:   # minimal stand-in so that Engine code that looks at fx.contract.opts keeps working
    def __init__(self):
        self.opts = {}
        self.attrs = "assume"
        self.func = "flow"
        self.uses = []


def _rewrite(expr):
    """the `$x -> x` rewriting that eval_expression performs (it uses var_x; plain x is equivalent for our purposes)"""
    return re.sub(r"\$([a-zA-Z_][a-zA-Z0-9_]*)", r"\1", expr)


class FlowExec:
    def __init__(self, eng, fc, flows):
        self.eng, self.fc, self.flows = eng, fc, flows
        key = "%s@%s" % (fc.file, fc.version)
        if key not in flows or fc.flow not in flows[key]:
            raise CheckerError("flow %r not found in the parser output of %s" % (fc.flow, fc.file))
        self.els = flows[key][fc.flow]["elements"]
        self.src = flows[key][fc.flow].get("source_code", "")
        self.fx = FlowFX("%s.%s" % (fc.file.split("/")[-1], fc.flow.replace(" ", "_")), _C())
        self.contracts = {c.flow: c for c in eng.reg.flow_contracts.values() if c.file == fc.file}
        self.budget = 4000

    # ---- expressions ---------------------------------------------------------------------------------------------
    def ev(self, text, st):
        if not isinstance(text, str):
            return self.eng.py_const(text, EC(st, spec=True))
        src = _rewrite(text)
        try:
            tree = ast.parse(src.strip(), mode="eval").body
        except SyntaxError:
            raise OutOfSubset("flow expression %r" % text)
        env = dict(st.env)
        # an undefined context variable reads as None (context.get)
        for n in ast.walk(tree):
            if isinstance(n, ast.Name) and n.id not in env and n.id not in ("len", "None", "True", "False"):
                env[n.id] = tV(V.none)
        st2 = St(env, st.heap, st.pc, ghost=dict(st.ghost))
        ec = EC(st2, spec=True)
        ec.fx = self.fx
        return self.eng.ev(tree, ec)

    def clause(self, text, st, extra=None):
        env = dict(st.env)
        if extra:
            env.update(extra)
        tree = ast.parse(text.strip(), mode="eval").body
        for n in ast.walk(tree):
            if isinstance(n, ast.Name) and n.id not in env and n.id not in self.eng.specs and not hasattr(self.eng, "sp_" + n.id) \
                    and n.id not in ("len", "None", "True", "False", "all", "any", "range"):
                env[n.id] = tV(V.none)
        st2 = St(env, st.heap, st.pc, ghost=dict(st.ghost))
        ec = EC(st2, spec=True, old=self.entry)
        ec.fx = self.fx
        return self.eng.tb(self.eng.ev(tree, ec), ec)

    def emit(self, kind, idx, st, goal, note):
        self.eng.emit(self.fx, kind, idx, st, goal, note=note)

    # ---- execution -----------------------------------------------------------------------------------------------
    def run(self):
        fc = self.fc
        h = self.eng.h0.copy()
        env = {}
        st = St(env, h, [])
        for name in ("config", "generation_options", "event"):
            env[name] = tV(z3.Const("ctx_" + name, V))
        for name in fc.opts.get("context", []):
            env[name] = tV(z3.Const("ctx_" + name, V))
        for g, init in fc.ghost.items():
            if fc.is_subflow or init is None:
                env[g] = T("i", z3.Const("ghost_" + g, IntS))
            else:
                env[g] = T("i", z3.IntVal(init))
        self.entry = St(dict(env), h.copy(), [])
        for text in fc.requires:
            st.assume(self.clause(text, st))
        self.entry.pc = list(st.pc)
        self.work = [(0, st)]
        self.loop_seen = {}
        nexit = 0
        while self.work:
            head, st = self.work.pop()
            self.budget -= 1
            if self.budget < 0:
                raise CheckerError("flow path budget exhausted (missing loop contract?)")
            if head >= len(self.els) or head < 0:
                nexit += 1
                for text in fc.ensures:
                    self.emit("flow-post", len(self.els), st, self.clause(text, st), "on completion: " + text)
                continue
            self.step(head, st)
        if self.fx.nobl == 0:
            raise CheckerError("zero obligations generated for flow %s" % fc.flow)
        return nexit

    def push(self, head, st):
        self.work.append((head, st))

    def step(self, head, st):
        e = self.els[head]
        t = e["_type"]
        fc = self.fc
        if t == "meta":
            return self.push(head + 1, st)
        if t == "set":
            st.env[e["key"]] = self.ev(e["expression"], st)
            return self.push(head + int(e.get("_next", 1)), st)
        if t == "if":
            c = simp(truthy(self.ev(e["expression"], st), st.heap))
            for cond, nxt in ((c, head + 1), (simp(z3.Not(c)), head + int(e["_next_else"]))):
                if z3.is_false(cond):
                    continue
                s2 = st.copy()
                s2.assume(cond)
                if z3.is_true(cond) or self.eng.feasible(s2):
                    self.push(nxt, s2)
            return
        if t == "jump":
            nxt = head + int(e["_next"]) if not e.get("_absolute") else int(e["_next"])
            if int(e["_next"]) < 0 and nxt in self.loop_seen:
                # back edge of a `while`: the invariant must hold again; the path ends here
                sp = self.loop_seen[nxt]
                for text in sp.get("inv", []):
                    self.emit("flow-inv-pres", head, st, self.clause(text, st), "invariant " + text)
                return
            return self.push(nxt, st)
        if t == "while":
            sp = fc.loops.get(e["expression"])
            if sp is None:
                raise CheckerError("while without contract in flow %s: %r" % (fc.flow, e["expression"]))
            for text in sp.get("inv", []):
                self.emit("flow-inv-init", head, st, self.clause(text, st), "invariant " + text)
            hv = st.copy()
            for name in self.loop_assigns(head, e):
                if name in fc.ghost:
                    hv.env[name] = T("i", fresh("lg_" + name, IntS))
                else:
                    hv.env[name] = tV(fresh("lv_" + name, V))
            for text in sp.get("inv", []):
                hv.assume(self.clause(text, hv))
            self.loop_seen[head] = sp
            c = simp(truthy(self.ev(e["expression"], hv), hv.heap))
            s_in = hv.copy()
            s_in.assume(c)
            if self.eng.feasible(s_in):
                self.push(head + int(e.get("_next", 1)), s_in)
            s_out = hv.copy()
            s_out.assume(z3.Not(c))
            if self.eng.feasible(s_out):
                self.push(head + int(e["_next_on_break"]), s_out)
            return
        if t == "run_action":
            name = e["action_name"]
            params = e.get("action_params", {})
            if name == "create_event":
                ev = params["event"]
                et = ev["_type"]
                pvals = {k: self.ev(v, st) for k, v in ev.items() if k != "_type"}
                for text in fc.at_event.get(et, []):
                    extra = {"param_" + k: v for k, v in pvals.items()}
                    self.emit("flow-at-event", head, st, self.clause(text, st, extra), "where %s is created: %s" % (et, text))
                st.ghost["created"] = st.ghost.get("created", ()) + (et,)
                return self.push(head + 1, st)
            # execute <action>: result arbitrary (stored in the result variable if any); an action that fails ends the turn
            for text in fc.at_action.get(name, fc.at_action.get("*", [])):
                self.emit("flow-at-action", head, st, self.clause(text, st), "where action %s runs: %s" % (name, text))
            rk = e.get("action_result_key")
            if rk:
                st.env[rk] = tV(fresh("act_" + name, V))
            for vname in fc.opts.get("action_havoc", {}).get(name, []):
                st.env[vname] = tV(fresh("actv_" + vname, V))
            return self.push(head + 1, st)
        if t == "flow":
            fname = e["flow_name"]
            if fname.startswith("$"):
                dyn = fc.dynamic
                if dyn is None:
                    raise CheckerError("dynamic subflow call without a `dynamic` contract in flow %s" % fc.flow)
                callee = "<dynamic>"
                for text in fc.at_call.get(callee, []):
                    self.emit("flow-at-call", head, st, self.clause(text, st, {"callee_index": self.dyn_index(fname, st)}),
                              "at `do %s`: %s" % (fname, text))
                for vname in dyn.get("havoc", []):
                    st.env[vname] = tV(fresh("dyn_" + vname, V))
                for g, expr in dyn.get("effect", {}).items():
                    st.env[g] = T("i", self.eng.coerce(self.ev(expr, st), "i", EC(st, spec=True)))
                # the callee may also stop the turn: that path simply ends (nothing after it runs)
                return self.push(head + 1, st)
            cc = self.contracts.get(fname)
            if cc is None:
                raise CheckerError("call of flow %r without a flow contract" % fname)
            for text in fc.at_call.get(fname, []):
                self.emit("flow-at-call", head, st, self.clause(text, st), "at `do %s`: %s" % (fname, text))
            for text in cc.requires:
                self.emit("flow-pre-callee", head, st, self.clause(text, st), "%s requires %s" % (fname, text))
            pre = St(dict(st.env), st.heap, list(st.pc))
            for vname in cc.assigns:
                if vname in cc.ghost or vname in fc.ghost:
                    st.env[vname] = T("i", fresh("cg_" + vname, IntS))
                else:
                    st.env[vname] = tV(fresh("cv_" + vname, V))
            old_entry = self.entry
            self.entry = pre
            for text in cc.ensures:
                st.assume(self.clause(text, st))
            self.entry = old_entry
            return self.push(head + 1, st)
        if t in ("stop",):
            return
        # any other element is an event / intent match: the flow waits for it and then continues; `$event` is the matched event
        st.env["event"] = tV(fresh("event", V))
        return self.push(head + 1, st)

    def dyn_index(self, fname, st):
        m = re.match(r"^\$([a-zA-Z_][a-zA-Z0-9_]*)\[\$([a-zA-Z_][a-zA-Z0-9_]*)\]$", fname)
        if not m:
            raise OutOfSubset("dynamic flow name %r" % fname)
        return st.env.get(m.group(2), tV(V.none))

    def loop_assigns(self, head, e):
        """context / ghost names that may change inside the loop whose `while` element is at `head`"""
        end = head + int(e["_next_on_break"])
        names = set()
        for k in range(head + 1, min(end, len(self.els))):
            x = self.els[k]
            if x["_type"] == "set":
                names.add(x["key"])
            elif x["_type"] == "run_action" and x.get("action_result_key"):
                names.add(x["action_result_key"])
            elif x["_type"] == "flow":
                if x["flow_name"].startswith("$"):
                    dyn = self.fc.dynamic or {}
                    names |= set(dyn.get("havoc", [])) | set(dyn.get("effect", {}))
                else:
                    cc = self.contracts.get(x["flow_name"])
                    if cc:
                        names |= set(cc.assigns)
            elif x["_type"] not in ("meta", "if", "while", "jump", "run_action", "stop"):
                names.add("event")
        return sorted(names)


def verify_flow(eng, fc, flows):
    fe = FlowExec(eng, fc, flows)
    n = fe.run()
    eng.assumptions.add("A-COLANG: operational reading of the Colang 1.0 elements (coverif/v1.py docstring); cross-flow event dispatch, "
                        "history replay and the LLMRails driver are not verified")
    eng.functions.append(dict(file=fc.file, func="flow " + fc.flow, sha256=hashlib.sha256(fe.src.encode()).hexdigest(),
                              loops=list(fc.loops), obligations=fe.fx.nobl, paths=n, status="ok",
                              verified_text="element list produced by the real parser on every run"))
