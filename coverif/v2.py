"""coverif.v2 — contracts on the Colang 2.x flows that ship in the repository (the guardrails library).

What is verified is the OUTPUT OF THE REAL PARSER (`parse_colang_file(..., version="2.x")`, run by native/extract.py on every
check) for the real `.co` file: the UNEXPANDED element tree of each flow (SpecOp match / await / start / send, Assignment, Global,
If, When, Log, Abort, Return).  A small symbolic executor walks the tree; every flow has TWO kinds of exit:

   finished   the flow ran to its end (or `return`)
   failed     the flow executed `abort`, or a flow it awaited failed (outside a `when`), at that point

Operational reading (trusted base of this layer, A-COLANG-V2, listed in every evidence file):
  * `await <flow>` either finishes (then the awaited flow's finished-contract holds and execution continues) or fails - then the
    awaiting flow fails AT THAT STATEMENT: nothing after it runs (this is what `_abort_flow` / the FlowFailed matcher of the
    expanded await implement; the cross-flow dispatch itself is not verified);
  * `when <flow> ... else ...`: the `else` branch runs iff the flow failed;
  * `await <Action>` / `match <Event>`: the flow waits and continues; the value bound by `as $ref` / `$x = await ...` is arbitrary;
  * a `global $x` variable is one shared cell; flows under contract state which globals they may write (`assigns`); awaited flows
    WITHOUT a contract (the user's rails: `input rails`, `output rails`) are assumed not to write the library's internal globals;
  * a flow is not aborted from outside while it waits (A-NO-EXTERNAL-ABORT): an external abort is an exit no statement of the
    flow controls - see DESIGN.md for what that leaves open;
  * expressions are evaluated with total semantics; unknown functions (regex(), is_regex(), ...) yield arbitrary values.
"""
import ast
import hashlib
import re
import z3
from pyvc import smt
from pyvc.smt import V, simp
from pyvc.tr import T, tV, toV, St, EC, OutOfSubset, CheckerError, fresh, truthy

IntS = smt.IntS
NORMAL, FINISHED, FAILED = "normal", "finished", "failed"


class FlowFX:
    def __init__(self, label, contract):
        self.label = label
        self.nobl = 0
        self.entry = None
        self.fsrc = None
        self.contract = contract
        self.modconsts = {}


class _C:
    def __init__(self):
        self.opts = {}
        self.attrs = "assume"
        self.func = "flow"
        self.uses = []


def _rewrite(expr):
    return re.sub(r"\$([a-zA-Z_][a-zA-Z0-9_]*)", r"\1", expr)


class FlowExec2:
    def __init__(self, eng, fc, flows):
        self.eng, self.fc = eng, fc
        key = "%s@%s" % (fc.file, fc.version)
        if key not in flows or fc.flow not in flows[key]:
            raise CheckerError("flow %r not found in the parser output of %s" % (fc.flow, fc.file))
        self.flow = flows[key][fc.flow]
        self.src = self.flow.get("source_code", "")
        self.fx = FlowFX("%s.%s" % (fc.file.split("/")[-1], fc.flow.replace(" ", "_")), _C())
        self.contracts = {c.flow: c for c in eng.reg.flow_contracts.values() if c.file == fc.file and c.version == "2.x"}
        self.globals = set()
        self.nexits = 0

    # ---- expressions ---------------------------------------------------------------------------------------------
    def ev(self, text, st):
        if not isinstance(text, str):
            return self.eng.py_const(text, EC(st, spec=True))
        src = _rewrite(text)
        try:
            tree = ast.parse(src.strip(), mode="eval").body
        except SyntaxError:
            return tV(fresh("expr", V))
        env = dict(st.ghost.get("G", {}))
        env.update(st.env)                  # a flow-local variable shadows the global of the same name (_get_eval_context)
        for n in ast.walk(tree):
            if isinstance(n, ast.Name) and n.id not in env and n.id not in ("len", "None", "True", "False"):
                env[n.id] = tV(V.none)
        st2 = St(env, st.heap, st.pc, ghost=dict(st.ghost))
        ec = EC(st2, spec=True)
        ec.fx = self.fx
        try:
            return self.eng.ev(tree, ec)
        except (OutOfSubset, CheckerError, KeyError):
            return tV(fresh("expr", V))       # an expression outside the translator's reach: arbitrary value

    def clause(self, text, st, extra=None):
        env = dict(st.env)
        env.update(st.ghost.get("G", {}))   # a contract clause speaks about the GLOBAL cell of a declared global
        if extra:
            env.update(extra)
        tree = ast.parse(text.strip(), mode="eval").body
        for n in ast.walk(tree):
            if isinstance(n, ast.Name) and n.id not in env and n.id not in self.eng.specs and not hasattr(self.eng, "sp_" + n.id) \
                    and n.id not in ("len", "None", "True", "False", "all", "any", "range"):
                env[n.id] = tV(V.none)
        st2 = St(env, st.heap, st.pc, ghost=dict(st.ghost))
        ec = EC(st2, spec=True, old=self.entry)
        ec.fx = self.fx
        return self.eng.tb(self.eng.ev(tree, ec), ec)

    def emit(self, kind, line, st, goal, note):
        self.eng.emit(self.fx, kind, line, st, goal, note=note)

    # ---- execution -----------------------------------------------------------------------------------------------
    def run(self):
        fc = self.fc
        h = self.eng.h0.copy()
        env = {}
        st = St(env, h, [])
        for name in self.flow.get("parameters", []):
            env[name] = tV(z3.Const("par_" + name, V))
        G = {}
        for name in fc.opts.get("globals", []):
            G[name] = tV(z3.Const("glob_" + name, V))
        st.ghost["G"] = G
        for g, init in fc.ghost.items():
            env[g] = T("i", z3.Const("ghost_" + g, IntS) if init is None else z3.IntVal(init))
        entry_env = dict(env)
        entry_env.update(G)
        self.entry = St(entry_env, h.copy(), [])
        for text in fc.requires:
            st.assume(self.clause(text, st))
        self.entry.pc = list(st.pc)
        self.counter = 0
        for kind, s2 in self.block(self.flow["elements"], st):
            self.exit(FINISHED if kind == NORMAL else kind, s2, "end of the flow")
        if self.fx.nobl == 0:
            raise CheckerError("zero obligations generated for flow %s" % fc.flow)
        return self.nexits

    def exit(self, kind, st, where):
        self.nexits += 1
        fc = self.fc
        for text in fc.ensures:
            self.emit("flow-exit", self.counter, st, self.clause(text, st), "on every exit (%s, %s): %s" % (kind, where, text))
        for text in fc.opts.get("ensures_finished" if kind == FINISHED else "ensures_failed", []):
            self.emit("flow-exit-" + kind, self.counter, st, self.clause(text, st), "when the flow has %s (%s): %s" % (kind, where, text))

    def block(self, elements, st):
        """returns [(NORMAL, st)] for paths that continue after the block; FINISHED / FAILED exits are reported on the spot"""
        cur = [st]
        for e in elements or []:
            nxt = []
            for s in cur:
                for kind, s2 in self.step(e, s):
                    if kind == NORMAL:
                        nxt.append(s2)
                    else:
                        self.exit(kind, s2, self.describe(e))
            cur = nxt
            if not cur:
                break
        return [(NORMAL, s) for s in cur]

    def describe(self, e):
        if isinstance(e, dict) and e.get("_cls") == "SpecOp":
            return "%s %s" % (e["op"], (e.get("spec") or {}).get("name"))
        return str((e or {}).get("_cls", (e or {}).get("_type", "?")))

    def assign(self, st, name, val):
        if name in st.ghost.get("declared_global", ()):
            G = dict(st.ghost.get("G", {}))
            G[name] = val
            st.ghost["G"] = G               # `global $x` was executed in this flow: the assignment writes the shared cell
        else:
            st.env[name] = val              # otherwise a flow-local variable (which shadows a global of that name)

    def step(self, e, st):
        self.counter += 1
        fc = self.fc
        if not isinstance(e, dict) or "_cls" not in e:
            return [(NORMAL, st)]                       # doc strings / comment statements
        cls = e["_cls"]
        if cls in ("Log", "Print", "BeginScope", "EndScope"):
            return [(NORMAL, st)]
        if cls == "Global":
            st.ghost["declared_global"] = tuple(st.ghost.get("declared_global", ())) + (e["name"].lstrip("$"),)
            return [(NORMAL, st)]
        if cls == "Assignment":
            self.assign(st, e["key"], self.ev(e["expression"], st))
            return [(NORMAL, st)]
        if cls == "Abort":
            return [(FAILED, st)]
        if cls == "Return":
            return [(FINISHED, st)]
        if cls == "If":
            c = simp(truthy(self.ev(e["expression"], st), st.heap))
            outs = []
            for cond, body in ((c, e.get("then_elements")), (simp(z3.Not(c)), e.get("else_elements"))):
                if z3.is_false(cond):
                    continue
                s2 = st.copy()
                s2.assume(cond)
                if z3.is_true(cond) or self.eng.feasible(s2):
                    outs += self.block(body or [], s2)
            return outs
        if cls == "When":
            specs = e.get("when_specs") or []
            thens = e.get("then_elements") or []
            if len(specs) != 1 or (thens and isinstance(thens[0], list) and len(thens) != 1):
                raise OutOfSubset("`when` with several cases in flow %s" % fc.flow)
            body = thens[0] if thens and isinstance(thens[0], list) else thens
            spec = specs[0]
            outs = []
            for kind, s2 in self.await_spec(spec, st, None, in_when=True):
                if kind == NORMAL:
                    outs += self.block(body, s2)
                else:   # the awaited flow failed: the else branch runs
                    outs += self.block(e.get("else_elements") or [], s2)
            return outs
        if cls == "SpecOp":
            op = e["op"]
            spec = e.get("spec") or {}
            if spec.get("_cls") != "Spec":
                raise OutOfSubset("group statement in flow %s" % fc.flow)
            if op == "match":
                if spec.get("name") == "StartFlow":
                    return [(NORMAL, st)]               # the implicit first element
                ref = self.ref_name(spec)
                if ref:
                    self.assign(st, ref, tV(fresh("event", V)))
                return [(NORMAL, st)]
            if op in ("await",):
                return self.await_spec(spec, st, e.get("return_var_name"), in_when=False)
            if op in ("start", "send", "activate"):
                for text in fc.opts.get("at_start", {}).get(spec.get("name"), []):
                    self.emit("flow-at-start", self.counter, st, self.clause(text, st), "where %s is started: %s" % (spec.get("name"), text))
                return [(NORMAL, st)]
            raise OutOfSubset("SpecOp %s in flow %s" % (op, fc.flow))
        raise OutOfSubset("element %s in flow %s" % (cls, fc.flow))

    def ref_name(self, spec):
        r = spec.get("ref")
        if isinstance(r, dict):
            try:
                return r["elements"][0]["elements"][0].lstrip("$")
            except Exception:
                return None
        return None

    def await_spec(self, spec, st, ret_var, in_when):
        """returns [(NORMAL, st')] for the finished case and [(FAILED, st')] for the failed case (flows only)"""
        fc = self.fc
        name = spec.get("name")
        args = {k: self.ev(v, st) for k, v in (spec.get("arguments") or {}).items()}
        extra = {"param_" + k.lstrip("$"): v for k, v in args.items()}
        for text in fc.opts.get("at_await", {}).get(name, []):
            self.emit("flow-at-await", self.counter, st, self.clause(text, st, extra), "where %s is awaited: %s" % (name, text))
        if spec.get("spec_type") != "flow":
            # an action (or event): the flow waits for its Finished event and continues; results are arbitrary
            if ret_var:
                self.assign(st, ret_var, tV(fresh("act_" + re.sub(r"\W", "_", name or "x"), V)))
            ref = self.ref_name(spec)
            if ref:
                self.assign(st, ref, tV(fresh("ref", V)))
            return [(NORMAL, st)]
        cc = self.contracts.get(name)
        outs = []
        pre_env = dict(st.env)
        pre_env.update(st.ghost.get("G", {}))
        pre = St(pre_env, st.heap, list(st.pc))
        if cc is not None:
            for text in cc.requires:
                self.emit("flow-pre-callee", self.counter, st, self.clause(text, st), "%s requires %s" % (name, text))
        for kind in (NORMAL, FAILED):
            s2 = st.copy()
            if cc is not None:
                for vname in cc.assigns:
                    if vname in cc.ghost or vname in fc.ghost:
                        s2.env[vname] = T("i", fresh("cg_" + vname, IntS))
                    else:               # a global the callee may write
                        G = dict(s2.ghost.get("G", {}))
                        G[vname] = tV(fresh("cv_" + vname, V))
                        s2.ghost["G"] = G
                old_entry = self.entry
                self.entry = pre
                for text in list(cc.ensures) + list(cc.opts.get("ensures_finished" if kind == NORMAL else "ensures_failed", [])):
                    s2.assume(self.clause(text, s2))
                self.entry = old_entry
            else:
                self.eng.assumptions.add("A-V2-RAILS: the awaited flow `%s` has no contract (user-defined rails): it finishes or fails and "
                                         "does not write the guardrails library's internal globals" % name)
            if kind == NORMAL:
                for g, expr in fc.opts.get("on_finished", {}).get(name, {}).items():
                    s2.env[g] = T("i", self.eng.coerce(self.ev(expr, s2), "i", EC(s2, spec=True)))
                if ret_var:
                    self.assign(s2, ret_var, tV(fresh("ret", V)))
            if self.eng.feasible(s2):
                outs.append((kind, s2))
        return outs


def verify_flow(eng, fc, flows):
    fe = FlowExec2(eng, fc, flows)
    n = fe.run()
    eng.assumptions.add("A-COLANG-V2: operational reading of the unexpanded Colang 2.x elements (coverif/v2.py docstring): an awaited flow "
                        "finishes or fails, a failed awaited flow fails the awaiting flow at that statement (`when .. else` catches it), no "
                        "external abort while waiting; cross-flow event dispatch is not verified")
    eng.functions.append(dict(file=fc.file, func="flow " + fc.flow, sha256=hashlib.sha256(fe.src.encode()).hexdigest(),
                              loops=[], obligations=fe.fx.nobl, paths=n, status="ok",
                              verified_text="unexpanded element tree produced by the real Colang 2.x parser on every run"))
